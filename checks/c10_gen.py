"""C10 workload generators and the reference model of module initialisation.

Three families of cases, each a pure function of (seed, index):
  * gen_graph   - an acyclic import graph on disk (2..7 modules incl. the main module and the leaf module
                  `melde`), with the expected run-time trace computed by the model of DESIGN.md §8 "Modules"
  * gen_cycle   - an import graph that contains a cycle of length 1..4 (must be rejected), or a cycle that is
                  not reachable from the main module (control: must be accepted)
  * vis_cases   - the visibility matrix: one name per probe program

Surface syntax is the one of the golden tests directory_imports, import_toplevel, structs/imports,
private_name_overriding, public_name_overriding, type_aliases/imports.
"""
import posixpath
import random

DUDEN = 'Binde "Duden/Ausgabe" ein.\n'

LEAF_FUNCS = '''Die öffentliche Funktion melde mit den Parametern t und n vom Typ Text und Zahl, gibt eine Zahl zurück, macht:
	Schreibe t auf eine Zeile.
	Gib n zurück.
Und kann so benutzt werden:
	"melde <t> mit <n>"

Die öffentliche Funktion sag mit dem Parameter t vom Typ Text, gibt nichts zurück, macht:
	Schreibe t auf eine Zeile.
Und kann so benutzt werden:
	"sag <t>"

Die öffentliche Funktion zeig mit den Parametern t und n vom Typ Text und Zahl, gibt nichts zurück, macht:
	Schreibe t.
	Schreibe n auf eine Zeile.
Und kann so benutzt werden:
	"zeig <t> <n>"

'''


# ---------------------------------------------------------------------------------------------- helpers

def name_list(names):
    """`a` / `a und b` / `a, b und c` - the three surface forms of a selective import"""
    names = list(names)
    if len(names) == 1:
        return names[0]
    if len(names) == 2:
        return names[0] + " und " + names[1]
    return ", ".join(names[:-1]) + " und " + names[-1]


def rel_import_path(importer_rel, target_rel):
    """import path (without .ddp) of target as seen from the importer's directory"""
    start = posixpath.dirname(importer_rel) or "."
    return posixpath.relpath(target_rel, start)


def spell(rnd, rel, tags):
    """one of several spellings of the same relative path (all are equal after lexical cleaning)"""
    v = rnd.randrange(8)
    if v == 0:
        tags.add("path:./")
        return "./" + rel
    if v == 1:
        tags.add("path:x/../")
        return rnd.choice(["zz", "da", "pk"]) + "/../" + rel
    if v == 2 and "/" in rel and not rel.startswith(".."):
        a, rest = rel.split("/", 1)
        tags.add("path:a/../a/")
        return a + "/../" + a + "/" + rest
    if v == 3:
        tags.add("path:././")
        return "././" + rel
    if rel.startswith(".."):
        tags.add("path:../")
    elif "/" in rel:
        tags.add("path:sub/")
    return rel


class Mod:
    def __init__(self, key, k, rel):
        self.key, self.k, self.rel = key, k, rel   # rel: path relative to the case directory, without .ddp
        self.pub = {}          # public name -> descriptor dict {"kind":..., "value":...}
        self.order = []        # public names in declaration order
        self.ids = []          # trace ids of the global initialisers, in declaration order
        self.forbidden = []    # trace ids of top-level statements (must never appear when the module is imported)
        self.imports = []      # [{"form","path","targets":[keys],"names":[...]|None}] in source order
        self.zeige = []        # expected lines printed by the module's public function zeige<k>
        self.text = ""
        self.in_dir = None     # directory (relative) when the module is a member of a directory-import directory

    def add_pub(self, name, **d):
        self.pub[name] = d
        self.order.append(name)


# ---------------------------------------------------------------------------------------------- acyclic graphs

def gen_graph(seed, index):
    rnd = random.Random("c10-graph:%d:%d" % (seed, index))
    tags = set()
    n_mid = rnd.choice([0, 1, 1, 2, 2, 3, 3, 4, 4, 5, 5])
    layout = rnd.choice(["flat", "flat", "nested", "nested", "dirimport", "dirimport", "dirimport"]) if n_mid >= 1 else "flat"
    shape = rnd.choice(["random", "random", "chain", "diamond", "dense"])
    tags.add("layout:" + layout)

    # ---- file layout
    leaf_rel = rnd.choice(["melde", "melde", "melde", "lib/melde"])
    main_rel = rnd.choice(["main", "main", "main", "app/main"])
    pk = rnd.choice(["pk", "pk", "ab"])            # directory that is imported as a whole
    tief = rnd.choice(["tief", "ab", "m0"])        # its sub directory (sorted before or after the files m<k>.ddp)
    mods = {}
    leaf = Mod("L", 0, leaf_rel)
    mods["L"] = leaf
    mids = []
    n_members = 0
    if layout == "dirimport":
        n_members = rnd.randint(1, max(1, min(3, n_mid)))
    member_ranks = set(rnd.sample(range(1, n_mid + 1), n_members)) if n_members else set()
    for k in range(1, n_mid + 1):
        if k in member_ranks:
            d = pk if rnd.random() < 0.6 else pk + "/" + tief
            rel = d + "/m%d" % k
        elif layout == "flat":
            rel = "m%d" % k
        else:
            rel = rnd.choice(["", "", "da/", "da/sub/", "db/"]) + "m%d" % k
        m = Mod("M%d" % k, k, rel)
        if k in member_ranks:
            m.in_dir = posixpath.dirname(rel)
        mods[m.key] = m
        mids.append(m)
    main = Mod("main", n_mid + 1, main_rel)
    mods["main"] = main

    # ---- shared names: `wert`/`wer` public in the modules of S, `wert` private in the modules of P
    S, P = set(), set()
    for m in mids:
        if m.in_dir is None:
            r = rnd.random()
            if r < 0.35:
                S.add(m.key)
            elif r < 0.55:
                P.add(m.key)
    unreachable_extra = None

    # ---- which module wants to import which (lower rank only => acyclic)
    want = {}
    for m in mids:
        lower = [x for x in mids if x.k < m.k]
        if shape == "chain":
            t = lower[-1:]
        elif shape == "dense":
            t = list(lower)
        elif shape == "diamond":
            # every module imports the two modules below it: siblings that depend on each other
            t = lower[-2:]
        else:
            t = [x for x in lower if rnd.random() < 0.5]
        want[m.key] = t
    if shape == "chain":
        tmain = mids[-1:]
    elif shape == "dense":
        tmain = list(mids)
    elif shape == "diamond":
        tmain = mids[-2:]
    else:
        tmain = [x for x in mids if rnd.random() < 0.6]
        if mids and not tmain:
            tmain = [rnd.choice(mids)]
    want["main"] = tmain

    files = {}

    # ---- the leaf module
    ltxt = [DUDEN, "\n", LEAF_FUNCS]
    leaf.add_pub("melde", kind="leaffunc")
    leaf.add_pub("sag", kind="leaffunc")
    leaf.add_pub("zeig", kind="leaffunc")
    n = 0
    for i in range(rnd.randint(0, 2)):
        n += 1
        ltxt.append('Die Zahl g%d ist melde "L.g%d" mit %d.\n' % (n, n, n))
        leaf.ids.append("L.g%d" % n)
    ltxt.append('Die öffentliche Zahl lwert ist melde "L.lwert" mit 77.\n')
    leaf.ids.append("L.lwert")
    leaf.add_pub("lwert", kind="var", value=77)
    if rnd.random() < 0.6:
        ltxt.append('Schreibe "L.stmt" auf eine Zeile.\n')
        leaf.forbidden.append("L.stmt")
    leaf.text = "".join(ltxt)

    # ---- directory members, for the directory import forms
    def members_of(d, recursive):
        """member modules of directory d in filepath.WalkDir order (entries of a directory sorted by name,
        sub directories expanded in place)"""
        out = []

        def walk(dirrel):
            entries = {}
            for m in mids:
                if m.in_dir is None:
                    continue
                if m.in_dir == dirrel:
                    entries[posixpath.basename(m.rel) + ".ddp"] = m
                elif m.in_dir.startswith(dirrel + "/"):
                    sub = m.in_dir[len(dirrel) + 1:].split("/")[0]
                    entries[sub] = None
            for name in sorted(entries):
                if entries[name] is not None:
                    out.append(entries[name])
                elif recursive:
                    walk(dirrel + "/" + name)
        walk(d)
        return out

    # ---- middle modules and the main module, in rank order
    for m in mids + [main]:
        _build_module(rnd, m, mods, want[m.key], S, P, tags, pk if layout == "dirimport" else None, members_of)

    # an extra module nobody imports; it imports the leaf module and one other module
    if rnd.random() < 0.25:
        u = Mod("U", 99, rnd.choice(["frei", "da/frei"]))
        _build_module(rnd, u, mods, [x for x in mids if rnd.random() < 0.5], set(), set(), set(), None, members_of)
        mods["U"] = u
        tags.add("unreachable-module")

    for m in mods.values():
        files[m.rel + ".ddp"] = m.text
    if layout == "dirimport" and rnd.random() < 0.5:
        files[pk + "/notiz.txt"] = 'Schreibe "notiz" auf eine Zeile.\n'
        tags.add("non-ddp-file-in-directory")

    # ---- the model: expected trace
    expected = []
    initialised = set()

    def init(key):
        if key in initialised:
            return
        initialised.add(key)
        mm = mods[key]
        for imp in mm.imports:
            for t in imp["targets"]:
                init(t)
        expected.extend(mm.ids)

    main_events = []
    store = {}
    for ev in main.events:
        if ev[0] == "import":
            for t in ev[1]:
                init(t)
            main_events.append(["import", list(ev[1])])
        elif ev[0] == "line":
            expected.append(ev[1])
            main_events.append(["line", ev[1]])
        elif ev[0] == "assign":
            store[ev[1]] = ev[2]
        elif ev[0] == "call":
            for prefix, val, ref in mods[ev[1]].zeige:
                l = prefix + str(store.get(ref, val))
                expected.append(l)
                main_events.append(["line", l])
    reach = set(initialised)

    # ---- shape tags from the realised graph
    edges = {k: [t for imp in mm.imports for t in imp["targets"]] for k, mm in mods.items()}
    indeg = {}
    for k in reach | {"main"}:
        for t in set(edges[k]):
            indeg[t] = indeg.get(t, 0) + 1
    if any(v >= 2 and k != "L" for k, v in indeg.items()):
        tags.add("shape:diamond")
    for k in reach | {"main"}:
        ts = [t for t in edges[k] if t != "L"]
        if any(a != b and b in edges[a] for a in ts for b in ts):
            tags.add("shape:diamond-with-dependent-siblings")
    depth = {}

    def dp(k):
        if k not in depth:
            depth[k] = 1 + max([dp(t) for t in edges[k]] + [0])
        return depth[k]
    tags.add("depth:%d" % dp("main"))
    for k in reach | {"main"}:
        seen = [t for t in edges[k]]
        if len(seen) != len(set(seen)):
            tags.add("same-module-imported-twice-by-one-importer")
    if len(mods) - len(reach) - 1 > 0:
        tags.add("unreachable-module")
    tags.add("modules:%d" % len(mods))

    spec = {
        "kind": "graph", "name": "g%d" % index, "files": files, "main": main.rel + ".ddp", "expected": expected,
        "mods": {k: {"rel": mm.rel, "ids": mm.ids, "forbidden": mm.forbidden,
                     "imports": [imp["targets"] for imp in mm.imports], "reach": k in reach or k == "main"} for k, mm in mods.items()},
        "main_events": main_events, "tags": sorted(tags), "values": main.value_owner,
    }
    return spec


def _build_module(rnd, m, mods, targets, S, P, tags, pk, members_of):
    """writes m.text and fills m.pub/ids/forbidden/imports/zeige (and m.events, m.value_owner for the main module)"""
    is_main = m.key == "main"
    k = m.k
    K = m.key
    out = []
    leaf = mods["L"]
    m.events = []
    m.value_owner = {}

    uses_duden = is_main or rnd.random() < 0.4
    if uses_duden:
        out.append(DUDEN)

    # own names (reserved from the start: a later own declaration would clash with an imported name just the same)
    n_priv = rnd.randint(0, 2)
    n_pub = 0 if is_main else rnd.randint(1, 2)
    has_const = (not is_main) and rnd.random() < 0.5
    has_ding = (not is_main) and rnd.random() < 0.3
    own_wert = "pub" if K in S else ("priv" if K in P else None)
    scope = set(["g%d" % i for i in range(1, n_priv + 1)] + ["hilf"])
    if not is_main:
        scope |= {"v%dx%d" % (k, i) for i in range(1, n_pub + 1)} | {"zeige%d" % k}
    if has_const:
        scope.add("K%d" % k)
    if has_ding:
        scope |= {"Ding%d" % k, "ding%d" % k}
    if own_wert:
        scope.add("wert")
    if K in S:
        scope.add("wer")

    visible = {}      # usable value names -> (expression, value, owner key)
    have = set()      # leaf functions visible: melde / sag / zeig

    # ---- declaration queue
    decls = [("var", "g%d" % i, False) for i in range(1, n_priv + 1)] + [("var", "v%dx%d" % (k, i), True) for i in range(1, n_pub + 1)]
    if own_wert:
        decls.append(("var", "wert", own_wert == "pub"))
    rnd.shuffle(decls)
    if has_const:
        decls.insert(rnd.randint(0, len(decls)), ("const", "K%d" % k, True))
    if has_ding:
        decls.insert(rnd.randint(0, len(decls)), ("ding", "Ding%d" % k, True))
    n_top = rnd.randint(1, 3) if is_main else rnd.randint(0, 2)
    for i in range(n_top):
        decls.insert(rnd.randint(0, len(decls)), ("top", i + 1, False))

    # ---- import queue
    imps = []
    dir_used = False
    tl = list(targets)
    rnd.shuffle(tl)
    if pk and m.in_dir is None:
        for recursive in rnd.sample([False, True], 2):
            mem = members_of(pk, recursive)
            if mem and all(x.k < k for x in mem) and rnd.random() < 0.7:
                imps.append(("dir", recursive, mem))
                tl = [x for x in tl if x not in mem]
                dir_used = True
                break
    for t in tl:
        imps.append(("mod", t))
    rnd.shuffle(imps)
    need_leaf = (not is_main) or rnd.random() < 0.7
    if need_leaf:
        imps.insert(rnd.randint(0, len(imps)), ("mod", leaf))

    val_counter = [0]

    def fresh():
        val_counter[0] += 1
        return k * 1000 + val_counter[0]

    def do_import(item):
        if item[0] == "dir":
            _, recursive, mem = item
            names = [nn for x in mem for nn in x.order]
            if any(nn in scope for nn in names) or len(set(names)) != len(names):
                return
            d = rel_import_path(m.rel, pk)
            path = spell(rnd, d, tags)
            if recursive:
                out.append('Binde rekursiv alle Module aus "%s" ein.\n' % path)
                tags.add("form:directory-recursive")
            else:
                out.append('Binde alle Module aus "%s" ein.\n' % path)
                tags.add("form:directory")
            m.imports.append({"form": "rdir" if recursive else "dir", "path": path, "targets": [x.key for x in mem], "names": None})
            m.events.append(("import", [x.key for x in mem]))
            for x in mem:
                expose(x, x.order)
            return
        t = item[1]
        forced = item[2] if len(item) > 2 else None
        free = [nn for nn in t.order if nn not in scope]
        if forced is not None:
            free = [nn for nn in forced if nn not in scope]
        if not free:
            return
        rel = rel_import_path(m.rel, t.rel)
        path = spell(rnd, rel, tags)
        whole_ok = forced is None and len(free) == len(t.order)
        if whole_ok and rnd.random() < 0.5:
            out.append('Binde "%s" ein.\n' % path)
            tags.add("form:whole")
            m.imports.append({"form": "whole", "path": path, "targets": [t.key], "names": None})
            m.events.append(("import", [t.key]))
            expose(t, t.order)
            return
        # selective
        if t is leaf and forced is None and not is_main:
            must = ["melde", "zeig"]
            opt = [nn for nn in free if nn not in must]
            if rnd.random() < 0.3:
                # split: melde now, zeig (and the rest) later through another spelling of the path
                later = ["zeig"] + [nn for nn in opt if rnd.random() < 0.5]
                names = ["melde"] + [nn for nn in opt if nn not in later and rnd.random() < 0.5]
                pending.append(("mod", t, later))
                tags.add("one-module-imported-in-two-parts")
            else:
                names = must + [nn for nn in opt if rnd.random() < 0.5]
        elif forced is not None:
            names = list(free)
        else:
            cnt = rnd.randint(1, len(free))
            names = rnd.sample(free, cnt)
            rest = [nn for nn in free if nn not in names]
            if rest and forced is None and rnd.random() < 0.3:
                pending.append(("mod", t, rnd.sample(rest, rnd.randint(1, len(rest)))))
                tags.add("one-module-imported-in-two-parts")
        rnd.shuffle(names)
        out.append('Binde %s aus "%s" ein.\n' % (name_list(names), path))
        tags.add("form:selective-%d" % min(len(names), 3))
        m.imports.append({"form": "sel", "path": path, "targets": [t.key], "names": list(names)})
        m.events.append(("import", [t.key]))
        expose(t, names)

    def expose(t, names):
        for nn in names:
            scope.add(nn)
            d = t.pub[nn]
            kd = d["kind"]
            if kd == "leaffunc":
                have.add(nn)
            elif kd == "var":
                visible[nn] = (nn, d["value"], t.key, "%s:%s" % (t.key, nn))
            elif kd == "const":
                visible[nn] = (nn, d["value"], t.key, None)
            elif kd == "wer":
                visible["wer"] = ("(wer da)", d["value"], t.key, None)
            elif kd == "dingvar":
                visible[nn + ".w"] = ("(w von %s)" % nn, d["value"], t.key, "%s:%s.w" % (t.key, nn))
            elif kd == "zeige":
                visible_zeige.append(t.key)

    visible_zeige = []
    pending = []   # second parts of split imports

    def emit_decl(d):
        kind, name, public = d
        oe = "öffentliche " if public else ""
        if kind == "var":
            tid = "%s.%s" % (K, name)
            usable = [v for nn, v in visible.items() if not nn.endswith(".w") and nn != "wer"]  # (expr, value, owner, ref)
            if usable and rnd.random() < 0.5:
                ex, val, _, _ = rnd.choice(usable)
                c = rnd.randint(1, 9)
                out.append('Die %sZahl %s ist melde "%s" mit (%s plus %d).\n' % (oe, name, tid, ex, c))
                val = val + c
                tags.add("initialiser-reads-imported-or-earlier-variable")
            else:
                val = fresh()
                out.append('Die %sZahl %s ist melde "%s" mit %d.\n' % (oe, name, tid, val))
            if is_main:
                m.events.append(("line", tid))
            else:
                m.ids.append(tid)
            visible[name] = (name, val, K, "%s:%s" % (K, name))
            if public:
                m.add_pub(name, kind="var", value=val)
        elif kind == "const":
            val = k * 1000 + 500
            out.append("Die öffentliche Konstante %s ist %d.\n" % (name, val))
            visible[name] = (name, val, K, None)
            m.add_pub(name, kind="const", value=val)
        elif kind == "ding":
            val = k * 1000 + 300
            tid = "%s.%s.w" % (K, name)
            out.append('Wir nennen die öffentliche Kombination aus\n\tder öffentlichen Zahl w mit Standardwert (melde "%s" mit %d),\n'
                       'ein %s, und erstellen sie so:\n\t"ein neues %s"\n' % (tid, val, name, name))
            out.append("Das öffentliche %s ding%d ist ein neues %s.\n" % (name, k, name))
            m.ids.append(tid)
            m.add_pub(name, kind="struct")
            m.add_pub("ding%d" % k, kind="dingvar", value=val)
            visible["ding%d.w" % k] = ("(w von ding%d)" % k, val, K, "%s:ding%d.w" % (K, k))
            tags.add("struct-default-with-side-effect-in-global-initialiser")
        elif kind == "top":
            tid = "%s.stmt%d" % (K, name) if not is_main else "main.p%d" % name
            forms = []
            if uses_duden:
                forms += ["schreibe", "wenn"]
            if "sag" in have:
                forms += ["sag", "fuer"]
            if "melde" in have:
                forms += ["expr"]
                if any(nn.startswith("g") for nn in visible if visible[nn][2] == K) and not is_main:
                    forms += ["assign"]
            f = rnd.choice(forms)
            if f == "schreibe":
                out.append('Schreibe "%s" auf eine Zeile.\n' % tid)
            elif f == "wenn":
                out.append('Wenn wahr, dann:\n\tSchreibe "%s" auf eine Zeile.\n' % tid)
            elif f == "sag":
                out.append('sag "%s".\n' % tid)
            elif f == "fuer":
                out.append('Für jede Zahl i von 1 bis 1, mache:\n\tsag "%s".\n' % tid)
            elif f == "expr":
                out.append('melde "%s" mit 0.\n' % tid)
            elif f == "assign":
                gname = [nn for nn in visible if nn.startswith("g") and visible[nn][2] == K][0]  # own private variable
                out.append('Speichere (melde "%s" mit 5) in %s.\n' % (tid, gname))
            if is_main:
                m.events.append(("line", tid))
            else:
                m.forbidden.append(tid)
                tags.add("toplevel-statement-in-import:" + f)

    def decl_allowed(d):
        if d[0] in ("var", "ding"):
            return "melde" in have
        if d[0] == "top":
            return uses_duden or "sag" in have or "melde" in have
        return True

    # ---- merge imports and declarations
    while imps or pending or decls:
        can_decl = bool(decls) and decl_allowed(decls[0])
        take_import = (imps or pending) and (not can_decl or rnd.random() < 0.55)
        if take_import:
            if pending and (not imps or rnd.random() < 0.4):
                do_import(pending.pop(0))
            else:
                do_import(imps.pop(0))
        elif can_decl:
            emit_decl(decls.pop(0))
        else:
            # the leaf functions never became visible (main module without the leaf import): drop what needs them
            decls.pop(0)

    if is_main:
        # use section: every value name visible in the main module, then every visible zeige function
        for nn in sorted(visible):
            ex, val, owner, ref = visible[nn]
            if owner == "main":
                continue
            tag = "main.sieht.%s=" % nn
            out.append('Schreibe "%s".\nSchreibe %s auf eine Zeile.\n' % (tag, ex))
            m.events.append(("line", tag + str(val)))
            m.value_owner[tag] = {"owner": owner, "others": {mm.key: _same_named_value(mm, nn) for mm in mods.values()
                                                              if mm.key != owner and _same_named_value(mm, nn) is not None}}
        # assignments through the imported name: the variable is one object for its module and for every importer
        cnt = 0
        for nn in sorted(visible):
            ex, val, owner, ref = visible[nn]
            if owner == "main" or ref is None or rnd.random() < 0.5:
                continue
            cnt += 1
            new = 90000 + cnt
            out.append("Speichere %d in %s.\n" % (new, ex.strip("()")))
            m.events.append(("assign", ref, new))
            tag = "main.nach.%s=" % nn
            out.append('Schreibe "%s".\nSchreibe %s auf eine Zeile.\n' % (tag, ex))
            m.events.append(("line", tag + str(new)))
            tags.add("main-assigns-imported-variable")
        for key in visible_zeige:
            out.append("zeige k%d.\n" % mods[key].k)
            m.events.append(("call", key))
        m.text = "".join(out)
        return

    # ---- private helper with the same name and alias in every module, public zeige<k> that shows what this module sees
    out.append('Die Funktion hilf gibt eine Zahl zurück, macht:\n\tGib %d zurück.\nUnd kann so benutzt werden:\n\t"hilf mir"\n' % (k * 1000 + 9))
    if K in S:
        out.append('Die öffentliche Funktion wer gibt eine Zahl zurück, macht:\n\tGib %d zurück.\nUnd kann so benutzt werden:\n\t"wer da"\n' % (k * 1000 + 7))
        m.add_pub("wer", kind="wer", value=k * 1000 + 7)
        visible["wer"] = ("(wer da)", k * 1000 + 7, K, None)
    body = []
    if "zeig" in have:
        body.append(('zeig "%s.zeige.hilf=" (hilf mir).' % K, ["%s.zeige.hilf=" % K, k * 1000 + 9, None]))
        cand = sorted(visible)
        rnd.shuffle(cand)
        for nn in cand[:5]:
            ex, val, owner, ref = visible[nn]
            body.append(('zeig "%s.zeige.%s=" %s.' % (K, nn, ex), ["%s.zeige.%s=" % (K, nn), val, ref]))
        if rnd.random() < 0.25:
            # forward declaration, definition at the end of the module (golden forward_declarations)
            out.append('Die öffentliche Funktion zeige%d gibt nichts zurück,\nwird später definiert\nund kann so benutzt werden:\n\t"zeige k%d"\n' % (k, k))
            out.append("Die Funktion zeige%d macht:\n" % k)
            for s, e in body:
                out.append("\t" + s + "\n")
                m.zeige.append(e)
            tags.add("forward-declared-public-function-in-import")
        else:
            out.append("Die öffentliche Funktion zeige%d gibt nichts zurück, macht:\n" % k)
            for s, e in body:
                out.append("\t" + s + "\n")
                m.zeige.append(e)
            out.append('Und kann so benutzt werden:\n\t"zeige k%d"\n' % k)
        m.add_pub("zeige%d" % k, kind="zeige")
    m.text = "".join(out)


def _same_named_value(mm, nn):
    """value that the name nn would have if it were (wrongly) resolved in module mm - for the diagnosis of a wrong value"""
    base = nn[:-2] if nn.endswith(".w") else nn
    d = mm.pub.get(base)
    if d is not None and "value" in d:
        return d["value"]
    return None


# ---------------------------------------------------------------------------------------------- trace oracle

def line_key(line):
    return line.split("=", 1)[0] + "=" if "=" in line else line


def judge_trace(spec, out_lines):
    """laws of the property on one observed trace; returns [(law, detail)], most specific first.
    The last law (`model-order`) is the exact trace of DESIGN.md §8 (source order of imports)."""
    mods = spec["mods"]
    problems = []
    pos = {}
    for i, l in enumerate(out_lines):
        pos.setdefault(line_key(l), []).append(i)
    main_lines = [e[1] for e in spec["main_events"] if e[0] == "line"]
    universe = set(line_key(l) for l in main_lines)
    owner = {}
    for k, mm in mods.items():
        for t in mm["ids"]:
            owner[t] = k
        for t in mm["forbidden"]:
            owner[t] = k
        universe |= set(mm["ids"]) | set(mm["forbidden"])
    for key in pos:
        if key not in universe:
            problems.append(("unexpected-output", key))
    count_bad = False
    for k, mm in mods.items():
        if k == "main":
            continue
        for t in mm["forbidden"]:
            if t in pos:
                problems.append(("toplevel-statement-of-import-executed", t))
        for t in mm["ids"]:
            n = len(pos.get(t, []))
            if not mm["reach"]:
                if n:
                    problems.append(("unreachable-module-initialised", t))
            elif n == 0:
                problems.append(("initialiser-not-run", t))
                count_bad = True
            elif n > 1:
                problems.append(("initialiser-run-more-than-once", "%s x%d" % (t, n)))
                count_bad = True
    value_problems = []
    for l in main_lines:
        key = line_key(l)
        got = pos.get(key, [])
        if len(got) != 1:
            problems.append(("main-module-line-count", "%s x%d" % (key, len(got))))
            count_bad = True
        elif out_lines[got[0]] != l:
            info = spec.get("values", {}).get(key)
            extra = ""
            if info:
                try:
                    v = int(out_lines[got[0]].split("=", 1)[1])
                    hit = [o for o, ov in info["others"].items() if ov == v]
                    if hit:
                        extra = " (that is the same-named declaration of %s, expected the one of %s)" % (",".join(hit), info["owner"])
                except ValueError:
                    pass
            value_problems.append(("wrong-value-for-name", "expected %r got %r%s" % (l, out_lines[got[0]], extra)))
    if not count_bad:
        first = {k: min(pos[t][0] for t in mm["ids"]) for k, mm in mods.items() if k != "main" and mm["reach"] and mm["ids"]}
        last = {k: max(pos[t][0] for t in mm["ids"]) for k, mm in mods.items() if k in first}
        # a module is initialised after the modules it imports
        for k, mm in mods.items():
            if k not in first:
                continue
            for tl in mm["imports"]:
                for t in tl:
                    if t in last and not last[t] < first[k]:
                        problems.append(("initialised-before-a-module-it-imports", "%s before %s" % (k, t)))
            ps = [pos[t][0] for t in mm["ids"]]
            if ps != sorted(ps):
                problems.append(("initialisers-of-one-module-out-of-declaration-order", k))
        # ... and before the importer's code that follows the import (main module)
        closure = {}

        def reach_of(k):
            if k not in closure:
                closure[k] = {k}
                for tl in mods[k]["imports"]:
                    for t in tl:
                        closure[k] |= reach_of(t)
            return closure[k]
        evs = spec["main_events"]
        mpos = [pos[line_key(e[1])][0] if e[0] == "line" else None for e in evs]
        for i, e in enumerate(evs):
            if e[0] != "import":
                continue
            nxt = next((mpos[j] for j in range(i + 1, len(evs)) if mpos[j] is not None), None)
            if nxt is None:
                continue
            for t in e[1]:
                for r in reach_of(t):
                    if r in last and not last[r] < nxt:
                        problems.append(("initialised-after-importer-code-that-follows-the-import", "%s after %r" % (r, out_lines[nxt])))
        lp = [p for p in mpos if p is not None]
        if lp != sorted(lp):
            problems.append(("main-module-statements-out-of-order", ""))
    problems += value_problems
    if not problems and out_lines != spec["expected"]:
        problems.append(("model-order", "trace differs from the source-order post-order walk of DESIGN.md §8"))
    return problems


# ---------------------------------------------------------------------------------------------- cycles

def gen_cycle(seed, index):
    rnd = random.Random("c10-cycle:%d:%d" % (seed, index))
    tags = set()
    c = 1 + index % 4                      # cycle length 1..4
    prefix = rnd.randint(0, 2)             # modules between the main module and the cycle
    reachable = rnd.random() < 0.85
    main_in_cycle = prefix == 0 and reachable and rnd.random() < 0.7
    via_dir = rnd.random() < 0.4
    names = []
    dirs = ["", "", "da/", "da/sub/", "db/"]
    cyc = []
    for i in range(c):
        if i == 0 and main_in_cycle:
            cyc.append("main")
        else:
            cyc.append(rnd.choice(dirs) + "z%d" % (i + 1))
    pre = ["main"] if not main_in_cycle else []
    for i in range(prefix):
        pre.append(rnd.choice(dirs) + "v%d" % (i + 1))
    files = {}
    imports = {}   # rel -> list of import statements
    decl = {}

    def public_name(rel):
        return "n" + posixpath.basename(rel)

    allmods = list(dict.fromkeys(pre + cyc))
    for rel in allmods:
        imports[rel] = []
        decl[rel] = "Die öffentliche Zahl %s ist 1.\n" % public_name(rel)

    def add_import(a, b):
        rel = rel_import_path(a, b)
        path = spell(rnd, rel, tags)
        f = rnd.randrange(3)
        if via_dir and posixpath.dirname(b) and f != 1:
            d = rel_import_path(a, posixpath.dirname(b))
            imports[a].append('Binde %salle Module aus "%s" ein.\n' % ("rekursiv " if rnd.random() < 0.5 else "", spell(rnd, d, tags)))
            tags.add("edge:directory")
        elif f == 1:
            imports[a].append('Binde %s aus "%s" ein.\n' % (public_name(b), path))
            tags.add("edge:selective")
        else:
            imports[a].append('Binde "%s" ein.\n' % path)
            tags.add("edge:whole")

    chain = pre + [cyc[0]] if not main_in_cycle else [cyc[0]]
    if reachable:
        for a, b in zip(chain, chain[1:]):
            add_import(a, b)
    for i in range(c):
        add_import(cyc[i], cyc[(i + 1) % c])
    # harmless extra import before or after the cyclic one
    extra = "hm"
    files[extra + ".ddp"] = "Die öffentliche Zahl nhm ist 3.\n"
    for rel in allmods:
        if rnd.random() < 0.4:
            stmt = 'Binde "%s" ein.\n' % rel_import_path(rel, extra)
            if rnd.random() < 0.5:
                imports[rel].insert(0, stmt)
            else:
                imports[rel].append(stmt)
    for rel in allmods:
        body = decl[rel]
        if rnd.random() < 0.5:
            files[rel + ".ddp"] = "".join(imports[rel]) + body
        else:
            # imports after a declaration
            files[rel + ".ddp"] = body + "".join(imports[rel])
    if "main.ddp" not in files:
        files["main.ddp"] = "Die Zahl x ist 1.\n"
    tags.add("length:%d" % c)
    tags.add("prefix:%d" % prefix if reachable else "unreachable-cycle")
    if main_in_cycle:
        tags.add("through-main-module")
    return {"kind": "cycle", "name": "c%d" % index, "files": files, "main": "main.ddp", "expect_reject": reachable,
            "length": c, "tags": sorted(tags)}


# ---------------------------------------------------------------------------------------------- visibility matrix

KINDS = ["var", "const", "func", "struct", "alias", "typedef", "operator"]
VIS = ["pub", "priv", "absent"]
MODES = ["whole", "selN", "selO", "selBoth"]
NAME = {"var": "nvar", "const": "NKON", "func": "nfun", "struct": "Nkom", "alias": "Nali", "typedef": "Ndef", "operator": "nop"}


def _decl(kind, name, public, value):
    if kind == "var":
        return "Die %sZahl %s ist %d.\n" % ("öffentliche " if public else "", name, value)
    if kind == "const":
        return "Die %sKonstante %s ist %d.\n" % ("öffentliche " if public else "", name, value)
    if kind == "func":
        return ('Die %sFunktion %s gibt eine Zahl zurück, macht:\n\tGib %d zurück.\nUnd kann so benutzt werden:\n\t"rufe %s"\n'
                % ("öffentliche " if public else "", name, value, name))
    if kind == "struct":
        return ('Wir nennen die %sKombination aus\n\tder öffentlichen Zahl w mit Standardwert %d,\neinen %s, und erstellen sie so:\n\t"ein neuer %s"\n'
                % ("öffentliche " if public else "", value, name, name))
    if kind == "alias":
        return "Wir nennen eine Zahl %sauch eine %s.\n" % ("öffentlich " if public else "", name)
    if kind == "typedef":
        return "Wir definieren eine %s %sals eine Zahl.\n" % (name, "öffentlich " if public else "")
    if kind == "operator":
        return ('Die %sFunktion %s mit dem Parameter t vom Typ Text, gibt eine Zahl zurück, macht:\n\tGib %d zurück.\nUnd überlädt den "Betrag" Operator.\n'
                % ("öffentliche " if public else "", name, value))
    raise ValueError(kind)


def _use(kind, name):
    """statements that use exactly the name (plus Schreibe) and print the value that identifies the owner"""
    if kind in ("var", "const"):
        return "Die Zahl a ist %s.\nSchreibe a auf eine Zeile.\n" % name
    if kind == "func":
        return "Die Zahl a ist rufe %s.\nSchreibe a auf eine Zeile.\n" % name
    if kind == "struct":
        return "Der %s a ist ein neuer %s.\nSchreibe (w von a) auf eine Zeile.\n" % (name, name)
    if kind == "alias":
        return "Die %s a ist 5.\nSchreibe a auf eine Zeile.\n" % name
    if kind == "typedef":
        return "Die %s a ist 5 als %s.\nSchreibe (a als Zahl) auf eine Zeile.\n" % (name, name)
    if kind == "operator":
        return 'Die Zahl a ist der Betrag von "x".\nSchreibe a auf eine Zeile.\n'
    raise ValueError(kind)


def vis_cases():
    """the full matrix kind x (visibility in m1, m2) x (import mode of m1, m2) x (own declaration in the importer)"""
    cases = []
    for ki, kind in enumerate(KINDS):
        name = NAME[kind]
        for v1 in VIS:
            for v2 in VIS:
                for mo1 in MODES:
                    for mo2 in MODES:
                        for own in (False, True):
                            files = {}
                            vis = {1: v1, 2: v2}
                            mode = {1: mo1, 2: mo2}
                            imp = []
                            for i in (1, 2):
                                t = "Die öffentliche Zahl anker%d ist %d.\n" % (i, i)
                                d = "" if vis[i] == "absent" else _decl(kind, name, vis[i] == "pub", i * 100 + ki)
                                # declaration before or after the anchor
                                files["m%d.ddp" % i] = (d + t) if (i + ki) % 2 else (t + d)
                                if mode[i] == "whole":
                                    imp.append('Binde "m%d" ein.\n' % i)
                                elif mode[i] == "selN":
                                    imp.append('Binde %s aus "m%d" ein.\n' % (name, i))
                                elif mode[i] == "selO":
                                    imp.append('Binde anker%d aus "m%d" ein.\n' % (i, i))
                                else:
                                    imp.append('Binde anker%d und %s aus "m%d" ein.\n' % (i, name, i))
                            owndecl = _decl(kind, name, False, 900 + ki) if own else ""
                            files["main.ddp"] = DUDEN + "".join(imp) + owndecl + _use(kind, name)
                            listed_bad = [i for i in (1, 2) if mode[i] in ("selN", "selBoth") and vis[i] != "pub"]
                            exposers = [i for i in (1, 2) if vis[i] == "pub" and mode[i] in ("whole", "selN", "selBoth")]
                            value = None
                            if listed_bad:
                                expect = "reject-import"
                            elif len(exposers) + (1 if own else 0) == 0:
                                expect = "reject-use"
                            elif len(exposers) + (1 if own else 0) == 1:
                                expect = "accept"
                                if kind in ("alias", "typedef"):
                                    value = 5
                                elif own:
                                    value = 900 + ki
                                else:
                                    value = exposers[0] * 100 + ki
                            else:
                                expect = "conflict"      # two visible declarations of one name: not judged
                            cases.append({"kind": "vis", "name": "v-%s-%s-%s-%s-%s-%s" % (kind, v1, v2, mo1, mo2, "own" if own else "noown"),
                                          "files": files, "main": "main.ddp", "expect": expect, "value": value, "decl": kind, "ident": name,
                                          "listed_bad": listed_bad,
                                          "cell": "%s:%s/%s:%s/%s:%s" % (kind, v1, mo1, v2, mo2, "own" if own else "-")})
    # fields of a public Kombination (golden structs/imports: the private field is an error for the importer)
    mod = ("Wir nennen die öffentliche Kombination aus\n\tder öffentlichen Zahl fpub mit Standardwert 41,\n\tder Zahl fpriv mit Standardwert 42,\n"
           'einen Nkom, und erstellen sie so:\n\t"ein neuer Nkom"\nDer öffentliche Nkom nk ist ein neuer Nkom.\n'
           "Die öffentliche Funktion hol gibt einen Nkom zurück, macht:\n\tGib nk zurück.\nUnd kann so benutzt werden:\n\t\"hol nk\"\n"
           "Die öffentliche Funktion innen gibt eine Zahl zurück, macht:\n\tGib (fpriv von nk) zurück.\nUnd kann so benutzt werden:\n\t\"innen\"\n")
    for mo, impstmt, has in [("whole", 'Binde "m1" ein.\n', {"type", "var", "fn"}), ("selType", 'Binde Nkom aus "m1" ein.\n', {"type"}),
                             ("selVar", 'Binde nk aus "m1" ein.\n', {"var"}), ("selFn", 'Binde hol aus "m1" ein.\n', {"fn"}),
                             ("selVarType", 'Binde nk und Nkom aus "m1" ein.\n', {"var", "type"}), ("selAll", 'Binde hol, nk und Nkom aus "m1" ein.\n', {"type", "var", "fn"})]:
        for field, fpublic, fval in (("fpub", True, 41), ("fpriv", False, 42)):
            for carrier in ("var", "new", "ret", "assign"):
                if carrier == "var":
                    use = "Die Zahl a ist %s von nk.\nSchreibe a auf eine Zeile.\n" % field
                    ok = "var" in has and fpublic
                    val = fval
                elif carrier == "new":
                    use = "Die Zahl a ist %s von (ein neuer Nkom).\nSchreibe a auf eine Zeile.\n" % field
                    ok = "type" in has and fpublic
                    val = fval
                elif carrier == "ret":
                    use = "Die Zahl a ist %s von (hol nk).\nSchreibe a auf eine Zeile.\n" % field
                    ok = "fn" in has and fpublic
                    val = fval
                else:
                    use = "Speichere 7 in %s von nk.\nSchreibe (%s von nk) auf eine Zeile.\n" % (field, field)
                    ok = "var" in has and fpublic
                    val = 7
                cases.append({"kind": "vis", "name": "v-field-%s-%s-%s" % (mo, field, carrier), "files": {"m1.ddp": mod, "main.ddp": DUDEN + impstmt + use},
                              "main": "main.ddp", "expect": "accept" if ok else "reject-use", "value": val if ok else None, "decl": "field", "ident": field,
                              "listed_bad": [], "cell": "field:%s/%s/%s" % (mo, field, carrier),
                              "law_if_accepted": "private-field-usable-by-importer" if not fpublic else "name-of-unimported-declaration-usable"})
    # imports are not re-exported: main imports m2, m2 imports m1, main uses a public name of m1
    for ki, kind in enumerate(KINDS):
        name = NAME[kind]
        for inner in ('Binde "m1" ein.\n', 'Binde %s aus "m1" ein.\n' % name):
            for outer in ('Binde "m2" ein.\n', 'Binde anker2 aus "m2" ein.\n'):
                files = {"m1.ddp": _decl(kind, name, True, 100 + ki), "m2.ddp": inner + "Die öffentliche Zahl anker2 ist 2.\n",
                         "main.ddp": DUDEN + outer + _use(kind, name)}
                cases.append({"kind": "vis", "name": "v-transitive-%s-%s-%s" % (kind, "whole" if "aus" not in inner else "sel", "whole" if "aus" not in outer else "sel"),
                              "files": files, "main": "main.ddp", "expect": "reject-use", "value": None, "decl": kind, "ident": name, "listed_bad": [],
                              "cell": "transitive:%s/%s/%s" % (kind, "whole" if "aus" not in inner else "sel", "whole" if "aus" not in outer else "sel"),
                              "law_if_accepted": "name-of-a-module-imported-by-the-imported-module-usable"})
    # ... and cannot be listed in a selective import from the importing module either: `Binde <name> aus "m2" ein.` names a declaration
    # that m2 only imported (wholly or selectively) from m1 - m2 does not declare it, so the import must be rejected
    for ki, kind in enumerate(KINDS):
        name = NAME[kind]
        for inner in ('Binde "m1" ein.\n', 'Binde %s aus "m1" ein.\n' % name):
            for outer in ('Binde %s aus "m2" ein.\n' % name, 'Binde anker2 und %s aus "m2" ein.\n' % name, 'Binde %s und anker2 aus "m2" ein.\n' % name):
                files = {"m1.ddp": _decl(kind, name, True, 100 + ki), "m2.ddp": inner + "Die öffentliche Zahl anker2 ist 2.\n",
                         "main.ddp": DUDEN + outer + _use(kind, name)}
                tag = "%s/%s/%s" % (kind, "whole" if "aus" not in inner else "sel", "only" if "anker2" not in outer else ("last" if outer.index("anker2") < outer.index(name) else "first"))
                cases.append({"kind": "vis", "name": "v-relist-" + tag.replace("/", "-"), "files": files, "main": "main.ddp", "expect": "reject-import", "value": None,
                              "decl": kind, "ident": name, "listed_bad": [2], "cell": "relisted:" + tag})
    # directory imports: all public names of the modules of the directory, of sub directories only when recursive, never private ones
    for ki, kind in enumerate(KINDS):
        name = NAME[kind]
        for where, vis in (("top", "pub"), ("top", "priv"), ("sub", "pub"), ("sub", "priv")):
            for recursive in (False, True):
                files = {"pk/oben.ddp": "Die öffentliche Zahl anker1 ist 1.\n" + (_decl(kind, name, vis == "pub", 100 + ki) if where == "top" else ""),
                         "pk/tief/unten.ddp": "Die öffentliche Zahl anker2 ist 2.\n" + (_decl(kind, name, vis == "pub", 200 + ki) if where == "sub" else ""),
                         "pk/notiz.txt": _decl(kind, name, True, 300 + ki),
                         "main.ddp": DUDEN + ('Binde rekursiv alle Module aus "pk" ein.\n' if recursive else 'Binde alle Module aus "pk" ein.\n') + _use(kind, name)}
                ok = vis == "pub" and (where == "top" or recursive)
                value = (5 if kind in ("alias", "typedef") else (100 if where == "top" else 200) + ki) if ok else None
                cases.append({"kind": "vis", "name": "v-dir-%s-%s-%s-%s" % (kind, where, vis, "rek" if recursive else "flach"), "files": files, "main": "main.ddp",
                              "expect": "accept" if ok else "reject-use", "value": value, "decl": kind, "ident": name, "listed_bad": [],
                              "cell": "directory:%s/%s/%s/%s" % (kind, where, vis, "recursive" if recursive else "flat"),
                              "law_if_accepted": "private-name-usable-by-importer" if vis == "priv" else "non-recursive-directory-import-exposes-sub-directory"})
    return cases


# ---------------------------------------------------------------------------------------------- targeted graphs

def targeted():
    """hand-written shapes that the random generator does not produce"""
    out = []
    schreibe = lambda t: 'Schreibe "%s" auf eine Zeile.\n' % t
    fn = lambda name, alias, tag: ('Die öffentliche Funktion %s gibt nichts zurück, macht:\n\tSchreibe "%s" auf eine Zeile.\nUnd kann so benutzt werden:\n\t"%s"\n'
                                   % (name, tag, alias))
    # two modules whose paths differ only in '/' versus '_' (the code generator derives symbol names from the path)
    out.append({"kind": "plain", "name": "t-path-slash-vs-underscore",
                "files": {"a/b.ddp": DUDEN + fn("f1", "f eins", "a/b.f1"), "a_b.ddp": DUDEN + fn("f2", "f zwei", "a_b.f2"),
                          "main.ddp": 'Binde "a/b" ein.\nBinde "a_b" ein.\nf eins.\nf zwei.\n'},
                "main": "main.ddp", "expected": ["a/b.f1", "a_b.f2"], "tags": ["module paths equal after replacing '/' by '_'"]})
    # same file name in two directories, same declaration names, both selectively imported under different names
    out.append({"kind": "plain", "name": "t-same-basename-two-dirs",
                "files": {"x/m.ddp": DUDEN + fn("f1", "f eins", "x/m.f1") + "Die Zahl g ist 1.\n",
                          "y/m.ddp": DUDEN + fn("f2", "f zwei", "y/m.f2") + "Die Zahl g ist 2.\n",
                          "main.ddp": 'Binde "x/m" ein.\nBinde "y/m" ein.\nf eins.\nf zwei.\n'},
                "main": "main.ddp", "expected": ["x/m.f1", "y/m.f2"], "tags": ["same base name in two directories"]})
    # golden import_toplevel, three levels
    out.append({"kind": "plain", "name": "t-import-toplevel",
                "files": {"main.ddp": DUDEN + 'Binde "modul1" ein.\n' + schreibe("main"), "modul1.ddp": DUDEN + 'Binde "modul2" ein.\n' + schreibe("modul1"),
                          "modul2.ddp": DUDEN + schreibe("modul2")},
                "main": "main.ddp", "expected": ["main"], "tags": ["golden import_toplevel"]})
    # same name: public function in two modules, each selectively imported by a different importer; private in a third
    out.append({"kind": "plain", "name": "t-same-public-name-two-importers",
                "files": {"p1.ddp": DUDEN + fn("f", "tu es", "p1.f") + "Die öffentliche Zahl n1 ist 1.\n",
                          "p2.ddp": DUDEN + fn("f", "tu es", "p2.f") + "Die öffentliche Zahl n2 ist 2.\n",
                          "p3.ddp": DUDEN + fn("f", "tu es", "p3.f").replace("öffentliche ", "") + fn("drei", "mach drei", "p3.drei").replace('Schreibe "p3.drei" auf eine Zeile.', "tu es."),
                          "q.ddp": 'Binde f aus "p2" ein.\n' + fn("q", "mach q", "x").replace('Schreibe "x" auf eine Zeile.', "tu es."),
                          "main.ddp": 'Binde f aus "p1" ein.\nBinde q aus "q" ein.\nBinde n2 aus "p2" ein.\nBinde "p3" ein.\ntu es.\nmach q.\nmach drei.\n'},
                "main": "main.ddp", "expected": ["p1.f", "p2.f", "p3.f"], "tags": ["same public function name in two modules, private in a third"]})
    # an import statement inside a function body: the module is still initialised exactly once, however often the function runs
    m_init = DUDEN + 'Die öffentliche Funktion melde mit den Parametern t und n vom Typ Text und Zahl, gibt eine Zahl zurück, macht:\n\tSchreibe t auf eine Zeile.\n\tGib n zurück.\nUnd kann so benutzt werden:\n\t"melde <t> mit <n>"\n'
    out.append({"kind": "plain", "name": "t-import-inside-function-body",
                "files": {"melde.ddp": m_init, "m.ddp": 'Binde "melde" ein.\nDie öffentliche Zahl wert ist melde "init m" mit 1.\n',
                          "main.ddp": DUDEN + schreibe("start") + 'Die Funktion tu gibt nichts zurück, macht:\n\tBinde "m" ein.\n\tSchreibe wert auf eine Zeile.\nUnd kann so benutzt werden:\n\t"tu es"\ntu es.\ntu es.\n'},
                "main": "main.ddp", "expected": ["start", "init m", "1", "1"], "alt_expected": [["init m", "start", "1", "1"]], "tags": ["import statement inside a function body"]})
    # file and directory names that are not identifiers (symbol names are derived from the path)
    odd = [("m-1", "a"), ("d 1/m 2", "b"), ("mä", "c"), ("m.x", "d"), ("m'q", "e")]
    files = {"main.ddp": "".join('Binde "%s" ein.\n' % n for n, _ in odd) + "".join("ruf %s.\n" % t for _, t in odd)}
    for n, t in odd:
        files[n + ".ddp"] = DUDEN + fn("f" + t, "ruf " + t, n) + "Die Zahl g ist 1.\n"
    out.append({"kind": "plain", "name": "t-odd-file-names", "files": files, "main": "main.ddp", "expected": [n for n, _ in odd],
                "tags": ["file names with '-', blank, umlaut, '.', quote"]})
    return out
