"""C10 Modules expose exactly their public names and initialise once, in order.

Workload: generated import graphs on disk (checks/c10_gen.py).
  static part   - the visibility matrix (one used name per probe program) judged from the diagnostics of the real
                  front end (ddpprobe parse) and, for a sample, from the exit status of kddp and the printed value
  dynamic part  - acyclic graphs compiled by the real kddp and run; stdout is the trace of initialiser side effects
                  (unique id per initialiser), judged by the laws of the property and by the model of DESIGN.md §8
  cycles        - graphs with an import cycle of length 1..4 must be rejected with the "gegenseitig einbinden" diagnostic
"""
import json
import os
import random
import re
import threading
import time

import vlib
from vlib import Check, Scratch, Probe, ProbeDied, log
from checks import c10_gen as gen

PID = "C10"
CYCLE_MSG = "gegenseitig einbinden"


# ---------------------------------------------------------------------------------------------- plumbing

class Ctx:
    def __init__(self, chk, sc):
        self.chk, self.sc = chk, sc
        self.tl = threading.local()
        self.probes = []
        self.lock = threading.Lock()
        self.tags = {}

    def probe(self):
        p = getattr(self.tl, "p", None)
        if p is None:
            p = Probe(self.sc.path)
            self.tl.p = p
            with self.lock:
                self.probes.append(p)
        return p

    def parse(self, cid, path):
        try:
            return self.probe().request({"op": "parse", "id": cid, "file": path, "cpu_sec": 30})
        except ProbeDied as e:
            return {"died": "%s %s" % (e.marker, vlib.classify_death(e.stderr_tail))}

    def parse_expect_accept(self, cid, path):
        """parse of a program that must be accepted; an unexpected rejection is re-tried twice, because the install directory
        (Duden/, list definitions) may be rebuilt by a concurrent build.sh - a transient tool failure, not a verdict"""
        r = self.parse(cid, path)
        for _ in range(2):
            if r.get("died") or r.get("panic") or not rejected(r):
                break
            time.sleep(1.5)
            r2 = self.parse(cid, path)
            if not rejected(r2):
                self.chk.count("transient_front_end_rejections_retried")
            r = r2
        return r

    def compile_expect_ok(self, main, exe, O=1):
        """kddp on an accepted program; a failure is re-tried twice (same reason as above); a deterministic failure stays a failure"""
        pr = vlib.kddp_compile(main, exe, O=O)
        for _ in range(2):
            if pr.timed_out or (pr.rc == 0 and os.path.exists(exe)):
                break
            time.sleep(1.5)
            pr2 = vlib.kddp_compile(main, exe, O=O)
            if pr2.rc == 0 and os.path.exists(exe):
                self.chk.count("transient_kddp_failures_retried")
            pr = pr2
        return pr

    def tag(self, tags):
        with self.lock:
            for t in tags:
                self.tags[t] = self.tags.get(t, 0) + 1

    def close(self):
        for p in self.probes:
            p.close()


def materialize(d, files):
    for rel, content in files.items():
        vlib.write_file(os.path.join(d, rel), content)
    return d


def replay_files(spec, extra=None):
    f = {"spec.json": json.dumps(spec, indent=1, ensure_ascii=False)}
    for rel, content in spec["files"].items():
        f["case/" + rel] = content
    if extra:
        f.update(extra)
    return f


def diag_summary(r, n=4):
    return [{"code": d["code"], "file": os.path.basename(d["file"]), "line": d["l1"], "msg": d["msg"][:160]} for d in (r.get("diags") or []) if d["level"] == 2][:n]


def rejected(r):
    return bool(r.get("faulty") or r.get("err") or r.get("nil_module") or r.get("errors", 0) > 0)


def forms_of(spec):
    return sorted(t[5:] for t in spec.get("tags", []) if t.startswith("form:"))


# ---------------------------------------------------------------------------------------------- dynamic part

def run_graph(ctx, spec, olevels, d):
    """returns the number of violations reported"""
    chk = ctx.chk
    materialize(d, spec["files"])
    main = os.path.join(d, spec["main"])
    nviol = 0
    r = ctx.parse_expect_accept(spec["name"], main)
    if r.get("died") or r.get("panic"):
        chk.count("front_end_crashes_left_to_C03")
        return 0
    if rejected(r):
        ds = diag_summary(r)
        chk.violation({"kind": "valid-import-graph-rejected", "code": ds[0]["code"] if ds else None, "msg": (ds[0]["msg"] if ds else r.get("err", ""))[:80],
                       "forms": forms_of(spec)}, files=replay_files(spec, {"probe.json": json.dumps(r, indent=1, ensure_ascii=False)}),
                      text="the front end rejects an import graph in which every used name is public and imported: %s" % ds)
        return 1
    for O in olevels:
        exe = os.path.join(d, "out_O%d" % O)
        pr = ctx.compile_expect_ok(main, exe, O=O)
        if pr.timed_out:
            chk.inconclusive += 1
            continue
        chk.note_case((spec["name"], O))
        if pr.rc != 0 or not os.path.exists(exe):
            err = (pr.err + pr.out)
            cls = "llvm: invalid redefinition of function" if "invalid redefinition of function" in err else \
                  ("linker" if "Fehler beim Linken" in err else re.sub(r"/\S*/", "", err.strip().split("\n")[0])[:80])
            chk.violation({"kind": "accepted-graph-not-compiled", "error": cls, "O": O, "shape": spec.get("tags", [])[:1] if spec["kind"] == "plain" else forms_of(spec)},
                          files=replay_files(spec, {"kddp_stderr.txt": err[-6000:]}), text="front end accepts, kddp exit %s: %s" % (pr.rc, err[-400:]))
            nviol += 1
            continue
        rr = vlib.run_exe(exe)
        if rr.timed_out:
            chk.inconclusive += 1
            continue
        lines = rr.out.split("\n")
        if lines and lines[-1] == "":
            lines.pop()
        if rr.rc != 0:
            chk.violation({"kind": "program-exit-status", "rc": rr.rc, "O": O, "forms": forms_of(spec)},
                          files=replay_files(spec, {"stdout.txt": rr.out, "stderr.txt": rr.err}), text="exit status %s, stderr %s" % (rr.rc, rr.err[-300:]))
            nviol += 1
            continue
        if spec["kind"] == "plain":
            problems = [] if (lines == spec["expected"] or lines in spec.get("alt_expected", [])) else [("wrong-output", "expected %r got %r" % (spec["expected"], lines))]
        else:
            problems = gen.judge_trace(spec, lines)
            chk.count("initialiser_events_checked", sum(len(m["ids"]) for m in spec["mods"].values() if m["reach"]))
            chk.count("modules_initialised", sum(1 for k, m in spec["mods"].items() if m["reach"] and k != "main"))
            chk.count("forbidden_ids_watched", sum(len(m["forbidden"]) + (0 if m["reach"] else len(m["ids"])) for m in spec["mods"].values()))
            chk.count("name_resolution_observations", sum(1 for l in spec["expected"] if "=" in l))
        if problems:
            laws = sorted({p[0] for p in problems})
            chk.violation(dict({"kind": "trace", "law": problems[0][0], "all_laws": laws, "O": O, "forms": forms_of(spec)}, **({"case": spec["name"]} if spec["kind"] == "plain" else {})),
                          files=replay_files(spec, {"stdout.txt": rr.out, "expected.txt": "\n".join(spec["expected"]) + "\n",
                                                    "problems.json": json.dumps(problems, indent=1, ensure_ascii=False)}),
                          text="; ".join("%s: %s" % p for p in problems[:6]))
            nviol += 1
        else:
            chk.count("traces_conforming")
    return nviol


# ---------------------------------------------------------------------------------------------- cycles

def run_cycle(ctx, spec, d, cli=True):
    chk = ctx.chk
    materialize(d, spec["files"])
    main = os.path.join(d, spec["main"])
    r = ctx.parse(spec["name"], main) if spec["expect_reject"] else ctx.parse_expect_accept(spec["name"], main)
    if r.get("died") or r.get("panic"):
        chk.count("front_end_crashes_left_to_C03")
        return 0
    chk.note_case(("cycle", spec["name"]))
    nviol = 0
    rej = rejected(r)
    msgs = [d_["msg"] for d_ in (r.get("diags") or []) if d_["level"] == 2]
    sig_base = {"kind": "cycle", "length": spec["length"], "edges": sorted(t for t in spec["tags"] if t.startswith("edge:"))}
    if spec["expect_reject"]:
        if not rej:
            chk.violation(dict(sig_base, law="import-cycle-accepted"), files=replay_files(spec, {"probe.json": json.dumps(r, indent=1, ensure_ascii=False)}),
                          text="front end accepts modules that import each other")
            nviol += 1
        elif not any(CYCLE_MSG in m for m in msgs):
            chk.violation(dict(sig_base, law="import-cycle-rejected-without-the-cycle-diagnostic", first=(msgs[0][:60] if msgs else r.get("err", "")[:60])),
                          files=replay_files(spec, {"probe.json": json.dumps(r, indent=1, ensure_ascii=False)}), text="diagnostics: %s" % msgs[:4])
            nviol += 1
        else:
            chk.count("cycles_rejected_with_diagnostic")
    else:
        if rej:
            chk.violation(dict(sig_base, law="cycle-not-reachable-from-main-but-rejected"), files=replay_files(spec, {"probe.json": json.dumps(r, indent=1, ensure_ascii=False)}),
                          text="diagnostics: %s" % msgs[:4])
            nviol += 1
        else:
            chk.count("unreachable_cycles_accepted")
    if cli:
        exe = os.path.join(d, "out")
        pr = vlib.kddp_compile(main, exe) if spec["expect_reject"] else ctx.compile_expect_ok(main, exe)
        if pr.timed_out:
            chk.inconclusive += 1
        else:
            chk.count("cycle_cli_runs")
            if spec["expect_reject"] and (pr.rc == 0 or os.path.exists(exe)):
                chk.violation(dict(sig_base, law="kddp-exit-0-or-executable-on-import-cycle"), files=replay_files(spec, {"kddp_stderr.txt": pr.err[-4000:]}),
                              text="kddp exit %s, executable exists: %s" % (pr.rc, os.path.exists(exe)))
                nviol += 1
            if spec["expect_reject"] and pr.rc != 0 and CYCLE_MSG not in pr.err + pr.out:
                chk.violation(dict(sig_base, law="kddp-fails-without-the-cycle-diagnostic"), files=replay_files(spec, {"kddp_stderr.txt": pr.err[-4000:]}), text=pr.err[-400:])
                nviol += 1
            if not spec["expect_reject"] and pr.rc != 0:
                chk.violation(dict(sig_base, law="cycle-not-reachable-from-main-but-kddp-fails"), files=replay_files(spec, {"kddp_stderr.txt": pr.err[-4000:]}), text=pr.err[-400:])
                nviol += 1
    return nviol


# ---------------------------------------------------------------------------------------------- static part

def vis_law(spec, accepted):
    """names the broken clause of the property for an unexpected verdict"""
    if not accepted:
        return "public-imported-name-rejected"
    if spec["expect"] == "reject-import":
        return "selective-import-listing-a-private-or-missing-name-accepted"
    if spec.get("law_if_accepted"):
        return spec["law_if_accepted"]
    parts = spec["cell"].split(":")      # kind : v1/mode1 : v2/mode2 : own
    pairs = [p.split("/") for p in parts[1:3]]
    if any(v == "priv" for v, _ in pairs):
        return "private-name-usable-by-importer"
    if any(v == "pub" and mo == "selO" for v, mo in pairs):
        return "selective-import-exposes-unlisted-public-name"
    return "undeclared-name-accepted"


def run_vis(ctx, spec, d, dynamic, cli):
    chk = ctx.chk
    materialize(d, spec["files"])
    main = os.path.join(d, spec["main"])
    r = ctx.parse_expect_accept(spec["name"], main) if spec["expect"] == "accept" else ctx.parse(spec["name"], main)
    if r.get("died") or r.get("panic"):
        chk.count("front_end_crashes_left_to_C03")
        return 0
    rej = rejected(r)
    chk.note_case(("vis", spec["cell"]), nontrivial=spec["expect"] != "conflict")
    pj = {"probe.json": json.dumps(r, indent=1, ensure_ascii=False)}
    nviol = 0
    if spec["expect"] == "conflict":
        chk.count("vis_conflict_cells_not_judged(rejected)" if rej else "vis_conflict_cells_not_judged(accepted)")
        return 0
    want_reject = spec["expect"] != "accept"
    if want_reject != rej:
        chk.violation({"kind": "visibility", "decl": spec["decl"], "law": vis_law(spec, not rej), "cell": spec["cell"]}, files=replay_files(spec, pj),
                      text="expected %s, front end %s: %s" % (spec["expect"], "rejects" if rej else "accepts", diag_summary(r)))
        return 1
    chk.count("vis_" + spec["expect"])
    if rej:
        for x in diag_summary(r, 1):
            chk.count("vis_reject_code_%s" % x["code"])
        if spec["expect"] == "reject-import" and any("öffentlichen Deklaration" in d_["msg"] and spec["ident"] in d_["msg"] for d_ in r.get("diags") or []):
            chk.count("vis_reject-import_with_specific_message")
    if cli or (dynamic and not rej):
        exe = os.path.join(d, "out")
        pr = vlib.kddp_compile(main, exe) if rej else ctx.compile_expect_ok(main, exe)
        if pr.timed_out:
            chk.inconclusive += 1
            return nviol
        chk.count("vis_cli_runs")
        if rej and (pr.rc == 0 or os.path.exists(exe)):
            chk.violation({"kind": "visibility", "decl": spec["decl"], "law": "front-end-rejects-but-kddp-exit-0", "cell": spec["cell"]},
                          files=replay_files(spec, pj), text="kddp exit %s" % pr.rc)
            nviol += 1
        if not rej:
            if pr.rc != 0:
                chk.violation({"kind": "accepted-graph-not-compiled", "error": re.sub(r"/\S*/", "", (pr.err + pr.out).strip().split("\n")[0])[:80], "O": 1, "shape": "visibility " + spec["cell"]},
                              files=replay_files(spec, {"kddp_stderr.txt": pr.err[-4000:]}), text=pr.err[-400:])
                return nviol + 1
            rr = vlib.run_exe(exe)
            if rr.timed_out:
                chk.inconclusive += 1
                return nviol
            chk.count("vis_values_checked")
            if rr.rc != 0 or rr.out.strip() != str(spec["value"]):
                other = ""
                chk.violation({"kind": "visibility", "decl": spec["decl"], "law": "name-resolved-to-the-declaration-of-another-module", "cell": spec["cell"]},
                              files=replay_files(spec, {"stdout.txt": rr.out}), text="expected value %s, program printed %r (exit %s)%s" % (spec["value"], rr.out, rr.rc, other))
                nviol += 1
    return nviol


# ---------------------------------------------------------------------------------------------- entry points

def run(tier):
    vlib.ensure_build(asan=False)
    chk = Check(PID, tier)
    seed = chk.seed
    if tier == "quick":
        n_graphs, olevels, n_extra_o, n_cycles, n_vis_matrix, n_vis_dyn, n_vis_cli = 100, [1], 20, 40, 300, 48, 32
    else:
        n_graphs, olevels, n_extra_o, n_cycles, n_vis_matrix, n_vis_dyn, n_vis_cli = 2000, [0, 1, 2], 0, 600, 10 ** 9, 10 ** 9, 400
    chk.rule = ("dynamic: %d generated acyclic import graphs of 2..7 modules (chains, diamonds with dependent siblings, dense graphs, nested directories, "
                "directory and recursive directory imports, whole and selective imports with 1/2/3+ names, one module imported in two parts and through "
                "several spellings of its path, unreachable modules, top-level statements in imports) + hand-written shapes, compiled by kddp at -O %s and run; "
                "each initialiser prints a unique id. Laws: every reachable initialiser exactly once; after all initialisers of the modules its module imports; "
                "before the main module's statement that follows the import; declaration order inside a module; no id of a top-level statement of an import or "
                "of an unreachable module; every name prints the value of the declaration of the module it was imported from; finally equality with the model trace "
                "(post-order walk in source order, DESIGN §8). cycles: %d graphs with an import cycle of length 1..4 (reachable: rejected with the cycle diagnostic by "
                "the front end and by kddp, no executable; unreachable: accepted). static: the full matrix declaration kind x visibility in two modules x import "
                "mode of each x own declaration (one used name per program; quick: seeded sample of %s judged cells) + Kombination fields, non-re-export, directory imports; "
                "verdict of the real front end; printed value of accepted cells. "
                "Distinct = (graph, -O) / cycle case / matrix cell." % (n_graphs, olevels, n_cycles, n_vis_matrix if n_vis_matrix < 10 ** 6 else "all"))
    chk.assumptions = [
        "module identity is the lexically cleaned absolute path; symbolic links and hard links are not generated",
        "--module-linken=false is not exercised: kddp does not compile imported modules in that mode (the link step fails for every program with an import)",
        "two visible declarations of one name in one importer (name clash) are outside the property: counted, not judged",
        "the order among the modules of one directory import is judged only by the model law (filepath.WalkDir order), all other laws are order-free there",
        "dispose order at program end is not observed",
        "an unexpected rejection / kddp failure on a program that must be accepted is re-tried twice before it counts (the shared install directory may be "
        "rebuilt by a concurrent build.sh); only a failure that repeats is reported",
        "executables run with LOCPATH=/verif/build/locale (de_DE.UTF-8 shim)",
    ]
    with Scratch("c10") as sc:
        ctx = Ctx(chk, sc)
        jobs = []
        for t in gen.targeted():
            jobs.append(("graph", t, olevels))
        for i in range(n_graphs):
            ol = list(olevels)
            if i < n_extra_o:
                ol = [0, 1, 2]
            jobs.append(("graphi", i, ol))
        for i in range(n_cycles):
            jobs.append(("cyclei", i, None))
        vis = gen.vis_cases()
        rnd = random.Random("c10-vis:%d" % seed)
        # quick: a seeded sample of the two-module matrix (judged cells only) + all field / transitive / directory cells
        matrix = [i for i, v in enumerate(vis) if v["name"].count("-") == 6 and v["name"].split("-")[1] in gen.KINDS and v["expect"] != "conflict"]
        if n_vis_matrix < len(matrix):
            keep = set(rnd.sample(matrix, n_vis_matrix)) | {i for i, v in enumerate(vis) if v["cell"].split(":")[0] in ("field", "transitive", "relisted", "directory")}
            vis = [v for i, v in enumerate(vis) if i in keep]
        chk.extra["visibility_probes"] = len(vis)
        acc = [i for i, v in enumerate(vis) if v["expect"] == "accept"]
        rejs = [i for i, v in enumerate(vis) if v["expect"].startswith("reject")]
        dyn = set(acc if n_vis_dyn >= len(acc) else rnd.sample(acc, n_vis_dyn))
        cli = set(rejs if n_vis_cli >= len(rejs) else rnd.sample(rejs, n_vis_cli))
        for i, v in enumerate(vis):
            jobs.append(("vis", v, (i in dyn, i in cli)))
        # interleave cheap and expensive jobs
        random.Random(seed).shuffle(jobs)

        def work(job):
            kind, a, b = job
            try:
                if kind == "graphi":
                    spec = gen.gen_graph(seed, a)
                    ctx.tag(spec["tags"])
                    n = run_graph(ctx, spec, b, os.path.join(sc.path, "g", spec["name"]))
                    if a in (0, 1) and not n:
                        chk.sample({"graph": spec["name"], "files": spec["files"], "expected_trace": spec["expected"], "tags": spec["tags"], "verdict": "trace conforms"})
                elif kind == "graph":
                    run_graph(ctx, a, b, os.path.join(sc.path, "t", a["name"]))
                elif kind == "cyclei":
                    spec = gen.gen_cycle(seed, a)
                    ctx.tag("cycle " + t for t in spec["tags"])
                    n = run_cycle(ctx, spec, os.path.join(sc.path, "c", spec["name"]))
                    if a == 1 and not n:
                        chk.sample({"cycle": spec["name"], "files": spec["files"], "verdict": "rejected with cycle diagnostic" if spec["expect_reject"] else "accepted"})
                else:
                    run_vis(ctx, a, os.path.join(sc.path, "v", a["name"]), b[0], b[1])
                    if a["cell"] in ("field:selVar/fpub/var", "transitive:func/whole/whole", "directory:var/sub/pub/flat"):
                        chk.sample({"probe": a["name"], "files": a["files"], "expected": a["expect"], "value": a["value"]})
            except Exception as e:   # harness trouble must not be mistaken for a pass
                import traceback
                log("job %s failed: %s" % (kind, traceback.format_exc()))
                chk.inconclusive += 1000
        vlib.pmap(work, jobs)
        ctx.close()
        chk.extra["workload_features"] = dict(sorted(ctx.tags.items()))
    return chk.finish(min_events=100)


def replay(path):
    vlib.ensure_build(asan=False)
    chk = Check(PID, "replay")
    spec = json.load(open(os.path.join(path, "spec.json")))
    with Scratch("c10r") as sc:
        ctx = Ctx(chk, sc)
        d = os.path.join(sc.path, "case")
        if spec["kind"] in ("graph", "plain"):
            n = run_graph(ctx, spec, [0, 1, 2], d)
        elif spec["kind"] == "cycle":
            n = run_cycle(ctx, spec, d)
        else:
            n = run_vis(ctx, spec, d, True, True)
        ctx.close()
    return 1 if chk.violations else 0
