"""C01 Compiled programs behave as DDP's evaluation rules prescribe.
Reference-model monitor: generated well-typed core-language programs are compiled by the real kddp
at -O 0/1/2 and run; stdout and exit status are compared byte for byte with ddpmodel's independent
reference evaluator. Four generators: operator cell sweep over boundary values, random expression
trees, random statement programs (nested control flow, all loop forms, functions, Referenz), and
producer/consumer compositions (a wrapping arithmetic result consumed directly by a comparison,
a second operator, a conversion or a condition; operands are globals or function parameters)."""
import itertools
import os
import random

import vlib
from vlib import Check, Scratch
from ddpmodel import *
from ddpmodel.gen import Gen, StmtGen, POOL, wrap_in_function
from ddpmodel import runner
from checks import progcheck

PID = "C01"

ARITH = ["plus", "minus", "mal", "durch"]
CMPS = ["kleiner", "groesser", "kleinergleich", "groessergleich", "gleich", "ungleich"]


def cell_program(rnd, k):
    """one program of the operator cell sweep: ~45 observations of op(operand, operand) over boundary values,
    operands as literals and as variables"""
    g = Gen(rnd, with_struct=True, with_any=True)
    # variables holding pool values
    for ty in (Z, K, B, W, C, T, L(Z), L(T), L(K)):
        for _ in range(2):
            g.declare(ty)
    cells = []
    num_pairs = [(Z, Z), (K, K), (B, B), (Z, K), (K, Z), (B, K), (K, B), (Z, B), (B, Z)]
    for op in ARITH:
        for ta, tb in num_pairs:
            rt = K if (op == "durch" or K in (ta, tb)) else (B if (ta == B and tb == B) else Z)
            cells.append(("bin", op, ta, tb, rt))
    for op in ["kleiner", "groesser", "kleinergleich", "groessergleich"]:
        for ta, tb in num_pairs:
            cells.append(("bin", op, ta, tb, W))
    for op in ["gleich", "ungleich"]:
        for t in g.types:
            cells.append(("bin", op, t, t, W))
    for ta, tb in [(Z, Z), (B, B), (Z, B), (B, Z)]:
        cells.append(("bin", "modulo", ta, tb, B if (ta == B and tb == B) else Z))
        for op in ("lund", "loder", "lkontra"):
            cells.append(("bin", op, ta, tb, B if (ta == B and tb == B) else Z))
        for op in ("links", "rechts"):
            cells.append(("shift", op, ta, tb, ta))
    for op, t in [("neg", Z), ("neg", K), ("betrag", Z), ("betrag", K), ("lnicht", Z), ("lnicht", B), ("nicht", W),
                  ("laenge", T), ("laenge", L(Z)), ("laenge", L(T))]:
        cells.append(("un", op, t, None, W if op == "nicht" else (Z if op == "laenge" else t)))
    for t in (Z, K):
        cells.append(("zwischen", t))
    for src, dst in [(K, Z), (B, Z), (W, Z), (C, Z), (Z, K), (B, K), (Z, B), (K, B), (Z, W), (B, W), (B, C), (Z, T), (K, T), (B, T), (W, T), (C, T)]:
        cells.append(("cast", src, dst))
    for t in (T, L(Z), L(T), L(C), L(K)):
        cells.append(("index", t))
        cells.append(("slice", t))
    for form in [(T, T), (T, C), (C, T), (L(Z), L(Z)), (L(Z), Z), (Z, L(Z)), (Z, Z), (L(T), T), (T, L(T)), (L(T), L(T)), (C, C), (K, K), (W, W)]:
        cells.append(("concat",) + form)
    # equality of Kommazahlen inside lists is equality of values: 0,0 and -0,0 are equal although their bytes differ
    nz = Un("neg", Lit(K, 0.0), K)
    for a, b in [([nz, Lit(K, 1.5)], [Lit(K, 0.0), Lit(K, 1.5)]), ([Lit(K, 2.0), nz], [Lit(K, 2.0), Lit(K, 0.0)]), ([nz], [nz]), ([nz, Lit(K, 1.0)], [Lit(K, 0.0), Lit(K, 2.0)])]:
        op = rnd.choice(["gleich", "ungleich"])
        if g.try_top(g.observe(Bin(op, ListLit(L(K), a), ListLit(L(K), b), W))):
            g.cells.add(("bin", op, "L<K> with negative zero"))
    rnd.shuffle(cells)
    n = 0
    for cell in cells * 2:
        if n >= 48:
            break
        leaf = g.leaf
        kind = cell[0]
        if kind == "bin":
            _, op, ta, tb, rt = cell
            e = Bin(op, leaf(ta), leaf(tb), rt)
        elif kind == "shift":
            _, op, ta, tb, rt = cell
            e = Bin(op, leaf(ta), Lit(tb, rnd.choice([0, 1, 7] + ([8, 31, 63] if ta == Z else []))), rt)
        elif kind == "un":
            _, op, t, _, rt = cell
            e = Un(op, leaf(t), rt)
        elif kind == "zwischen":
            t = cell[1]
            e = Ter("zwischen", leaf(t), leaf(t), leaf(t), W)
        elif kind == "cast":
            e = Cast(leaf(cell[1]), cell[2])
        elif kind == "index":
            t = cell[1]
            e = Bin("index", leaf(t), Lit(Z, rnd.randint(1, 3)), C if t == T else t[1])
        elif kind == "slice":
            t = cell[1]
            form = rnd.choice(["slice", "ab", "biszum"])
            if form == "slice":
                e = Ter("slice", leaf(t), Lit(Z, rnd.randint(-1, 4)), Lit(Z, rnd.randint(0, 14)), t)
            else:
                e = Bin(form, leaf(t), Lit(Z, rnd.randint(-1, 14)), t)
        elif kind == "concat":
            ta, tb = cell[1], cell[2]
            rt = T if (T in (ta, tb) and not is_list(ta) and not is_list(tb)) else (ta if is_list(ta) else tb if is_list(tb) else L(ta))
            e = Bin("verkettet", leaf(ta), leaf(tb), rt)
        if g.try_top(g.observe(e)):
            g.cells.add(tuple(str(x) for x in cell))
            n += 1
    return g


def tree_program(rnd, k):
    g = Gen(rnd)
    for ty in rnd.sample(g.types, 8):
        g.declare(ty)
    n = tries = 0
    while n < 30 and tries < 120:
        tries += 1
        ty = rnd.choice(g.types)
        if g.try_top(g.observe(g.expr(ty, rnd.randint(2, 4)))):
            n += 1
    return g


def stmt_program(rnd, k):
    g = StmtGen(rnd)
    local = rnd.random() < 0.35      # every variable a local of one function (globals and locals are compiled differently)
    g.build(n_items=rnd.randint(12, 28), d=2, nest=rnd.randint(1, 3), n_funcs=rnd.randint(0, 2) if local else rnd.randint(0, 3), pure_funcs=local)
    if local and wrap_in_function(g.prog, allow_funcs=True):
        g.cells.add(("holders", "local"))
    return g


EXTREME = {
    Z: [2 ** 63 - 1, -2 ** 63, 2 ** 63 - 8, -2 ** 63 + 8, 2 ** 62, -2 ** 62, 2 ** 62 + 1, 3037000500, -3037000500, 2 ** 32, 2 ** 31, -1, 0, 1, 2, 10, 20, 255, -256],
    B: [0, 1, 2, 16, 127, 128, 200, 255],
    K: [0.0, 0.5, -0.5, 1.0, -1.0, 2.0, 1e15, -1e15, 9007199254740992.0, 4503599627370497.0, 0.1, 0.25, 100.0, 1234.5678],
}


def compose_program(rnd, k):
    """producer/consumer compositions: an arithmetic result over boundary operands (Zahl results that leave the 64-bit range and wrap,
    Byte results that wrap at 256, large Kommazahlen) is consumed DIRECTLY by every kind of consumer - ordering comparison, equality,
    zwischen, a second arithmetic operator, a conversion, a 'falls' condition, a 'Wenn' condition - without being stored in between.
    The operands are not compile-time constants where they are used: globals read after calls, or parameters of a function that
    returns the consumer's result (the shape `Gib a plus b kleiner als a ist zurück`). A code generator or optimiser that treats the
    inner operation as non-wrapping (or evaluates the outer one at another width) gives the wrapped value when it is printed alone and
    another answer when it is consumed."""
    g = Gen(rnd, with_struct=False, with_any=False)
    gl = {}
    for ty in (Z, B, K):
        gl[ty] = []
        for v in rnd.sample(EXTREME[ty], 7 if ty == Z else 4):
            x = g.declare(ty, Lit(ty, v))
            if x is not None:
                gl[ty].append(x)

    def producers(src):
        """(name, result type, thunk building the expression over operands delivered by src(ty)); only the chosen thunk is called"""
        out = []
        for op in ("plus", "minus", "mal"):
            out.append((op + "(Z,Z)", Z, lambda op=op: Bin(op, src(Z), src(Z), Z)))
            out.append((op + "(B,B)", B, lambda op=op: Bin(op, src(B), src(B), B)))
            out.append((op + "(Z,B)", Z, lambda op=op: Bin(op, src(Z), src(B), Z)))
            out.append((op + "(B,Z)", Z, lambda op=op: Bin(op, src(B), src(Z), Z)))
            out.append((op + "(K,K)", K, lambda op=op: Bin(op, src(K), src(K), K)))
            out.append((op + "(Z,K)", K, lambda op=op: Bin(op, src(Z), src(K), K)))
        out.append(("neg(Z)", Z, lambda: Un("neg", src(Z), Z)))
        out.append(("betrag(Z)", Z, lambda: Un("betrag", src(Z), Z)))
        out.append(("links(Z)", Z, lambda: Bin("links", src(Z), Lit(Z, rnd.choice([1, 2, 31, 62, 63])), Z)))
        out.append(("links(B)", B, lambda: Bin("links", src(B), Lit(Z, rnd.choice([1, 4, 7])), B)))
        out.append(("cast(B,Z)", Z, lambda: Cast(src(B), Z)))
        out.append(("cast(Z,B)", B, lambda: Cast(src(Z), B)))
        out.append(("cast(Z,K)", K, lambda: Cast(src(Z), K)))
        out.append(("durch(Z,Z)", K, lambda: Bin("durch", src(Z), src(Z), K)))
        return out

    def consumers(e, t, src):
        out = []
        for c in ("kleiner", "groesser", "kleinergleich", "groessergleich", "gleich", "ungleich"):
            def t2(c=c):
                return t if c in ("gleich", "ungleich") else rnd.choice([t, t, Z, K] if t != K else [K, K, Z])
            out.append((c + ":l", lambda c=c, t2=t2: Bin(c, e, src(t2()), W)))
            out.append((c + ":r", lambda c=c, t2=t2: Bin(c, src(t2()), e, W)))
        if t in (Z, K):
            out.append(("zwischen:1", lambda: Ter("zwischen", e, src(t), src(t), W)))
            out.append(("zwischen:2", lambda: Ter("zwischen", src(t), e, src(t), W)))
        for op in ("plus", "minus", "mal"):
            out.append((op + ":again", lambda op=op: Bin(op, e, src(t), t)))
        out.append(("durch:again", lambda: Bin("durch", e, src(rnd.choice([Z, K])), K)))
        if t != K:
            out.append(("cast:K", lambda: Cast(e, K)))
            out.append(("modulo", lambda: Bin("modulo", e, src(t), t)))
            out.append(("rechts", lambda: Bin("rechts", e, Lit(Z, rnd.choice([1, 3, 7])), t)))
            out.append(("lund", lambda: Bin("lund", e, src(t), t)))
            out.append(("cast:W", lambda: Cast(e, W)))
        if t == Z:
            out.append(("cast:B", lambda: Cast(e, B)))
            out.append(("betrag:again", lambda: Un("betrag", e, Z)))
            out.append(("neg:again", lambda: Un("neg", e, Z)))
        if t == B:
            out.append(("cast:Z", lambda: Cast(e, Z)))
        out.append(("cast:T", lambda: Cast(e, T)))
        out.append(("falls", lambda: Ter("falls", Lit(T, "ja"), Bin(rnd.choice(["kleiner", "groesser"]), e, src(t), W), Lit(T, "nein"), T)))
        return out

    def gsrc(ty):
        if gl[ty] and rnd.random() < 0.85:
            return rnd.choice(gl[ty])
        return Lit(ty, rnd.choice(EXTREME[ty]))

    n = tries = 0
    while n < 40 and tries < 160:
        tries += 1
        form = rnd.choice(["global", "function", "function", "wenn"])
        if form == "function":
            # the consumer over the parameters of a function; called with boundary values
            ps = {}
            fname = g.fresh("f")

            def psrc(ty, ps=ps, fname=fname):
                have = [v for v in ps.values() if v.ty == ty]
                if have and rnd.random() < 0.4:
                    return rnd.choice(have)     # the same parameter twice: `a plus b kleiner als a`
                nm = "p%d_%s" % (len(ps), fname)
                ps[nm] = Var(nm, ty)
                return ps[nm]
            pname, t, mk = rnd.choice(producers(psrc))
            e = mk()
            cname, mk = rnd.choice(consumers(e, t, psrc))
            ce = mk()
            params = [Param(nm, v.ty) for nm, v in ps.items()]
            f = FuncDecl(fname, params, ce.ty, [Return(ce)])
            g.prog.items.append(f)
            ok = 0
            for _ in range(3):
                args = [gsrc(p.ty) if rnd.random() < 0.5 else Lit(p.ty, rnd.choice(EXTREME[p.ty])) for p in params]
                if g.try_top(g.observe(Call(f, args, ce.ty))):
                    ok += 1
            if not ok:
                g.prog.items.remove(f)
                continue
            n += ok
        else:
            pname, t, mk = rnd.choice(producers(gsrc))
            e = mk()
            cname, mk = rnd.choice(consumers(e, t, gsrc))
            ce = mk()
            if form == "wenn" and ce.ty == W:
                g.obs += 1
                st = [If([(ce, [Print(Lit(T, "#%d:ja" % g.obs), True)])], [Print(Lit(T, "#%d:nein" % g.obs), True)])]
            else:
                st = g.observe(ce)
            if not g.try_top(st):
                continue
            n += 1
        g.cells.add(("compose", pname, cname.split(":")[0], form))
    return g


GENS = [("cells", cell_program), ("trees", tree_program), ("stmts", stmt_program), ("compose", compose_program)]


def run(tier):
    vlib.ensure_build(asan=False)
    chk = Check(PID, tier)
    nprog, other_levels = (160, 50) if tier == "quick" else (3200, 3200)
    chk.rule = ("programs from four seeded generators (operator cell sweep over boundary value pools; random expression trees of depth <= 4; random "
                "statement programs with nested if/loops of every form, functions with value and Referenz parameters, early exits; producer/consumer compositions: "
                "wrapping Zahl/Byte arithmetic and large Kommazahlen over extreme operands consumed directly by comparisons, zwischen, further arithmetic, conversions, "
                "falls/Wenn conditions, with operands that are globals or parameters of a function); each observation is a "
                "tagged output line. A program is distinct by its source hash and non-trivial when it produced >= 1 observation. Oracle: byte-exact stdout "
                "and exit status vs the independent reference evaluator (ddpmodel), at -O 1 for every program and at -O 0 and -O 2 for a subset.")
    chk.assumptions = ["model domain: no modulo by 0, shifts within the width, float->int conversions only when representable, no NaN comparisons, canonical "
                       "decimal texts for text->number casts, no assignment to a loop counter, repeat counts >= 0 (generators filter by the model itself)",
                       "locale shim de_DE.UTF-8 (decimal comma) is test environment", "runtime-error paths are C06's business: programs stay inside the domain"]
    with Scratch("c01") as sc:
        jobs = []
        for i in range(nprog):
            gname, gfn = GENS[i % len(GENS)]
            levels = [1] + ([0, 2] if (i < other_levels or gname in ("stmts", "compose")) else [])     # statement and composition programs always at every level
            jobs.append((i, gname, gfn, levels))

        def work(job):
            i, gname, gfn, levels = job
            rnd = random.Random("%d/%s/%d" % (chk.seed, PID, i))
            g = gfn(rnd, i)
            prog = g.prog
            try:
                exp = runner.expected(prog)
            except ModelDomain:
                return None
            out = []
            for O in levels:
                wd = os.path.join(sc.path, "p%d" % i)
                cls, res = runner.judge(prog, wd, O=O, exp=exp)
                out.append((O, cls, res))
            return (i, gname, g, prog, exp, out)

        results = vlib.pmap(work, jobs)
        nviol = 0
        for r in results:
            if r is None:
                chk.count("discarded_outside_model")
                continue
            i, gname, g, prog, exp, outs = r
            src_hash = hash(outs[0][2].get("src", ""))
            nobs = exp[0].count("#")
            chk.note_case(src_hash, nontrivial=nobs > 0)
            chk.count("observations", nobs)
            chk.count("programs_" + gname)
            for c in g.cells:
                chk.distinct.add(("cell",) + tuple(c) if isinstance(c, tuple) else ("cell", c))
            for O, cls, res in outs:
                chk.count("executions")
                if cls == "ok":
                    continue
                if cls == "inconclusive":
                    chk.inconclusive += 1
                    continue
                nviol += 1
                if nviol > 6:      # enough distinct witnesses for one run; the rest is counted
                    chk.count("further_failing_executions")
                    continue
                tag = progcheck.first_diff_tag(exp[0], res.get("out", "")) if cls in ("diff",) else None
                progcheck.handle_violation(chk, "behaviour", prog, cls, res, O, os.path.join(sc.path, "v%d_%d" % (i, O)), reduce_budget=60)
            if i in (0, 1, 2):
                chk.sample({"generator": gname, "source_head": outs[0][2].get("src", "")[:600], "expected_stdout_head": exp[0][:200], "verdicts": [(O, c) for O, c, _ in outs]})
        chk.extra["cells_covered"] = len([d for d in chk.distinct if isinstance(d, tuple) and d and d[0] == "cell"])
    return chk.finish(min_events=30)


def replay(path):
    vlib.ensure_build(asan=False)
    with Scratch("c01r") as sc:
        src = open(os.path.join(path, "witness.ddp")).read()
        import json
        res = json.load(open(os.path.join(path, "result.json")))
        v = json.load(open(os.path.join(path, "violation.json")))
        O = v["signature"].get("O", 1)
        r = runner.run_real(None, sc.path, O=O, src=src)
        exp = res.get("expected", {})
        bad = r["status"] != "ran" or r["out"] != exp.get("out") or r["rc"] != exp.get("rc")
        print("status", r["status"], "rc", r.get("rc"), "expected rc", exp.get("rc"))
        if bad:
            print("VIOLATION property=%s replay=%s" % (PID, path))
            return 1
    return 0
