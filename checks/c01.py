"""C01 Compiled programs behave as DDP's evaluation rules prescribe.
Reference-model monitor: generated well-typed core-language programs are compiled by the real kddp
at -O 0/1/2 and run; stdout and exit status are compared byte for byte with ddpmodel's independent
reference evaluator. Three generators: operator cell sweep over boundary values, random expression
trees, random statement programs (nested control flow, all loop forms, functions, Referenz)."""
import itertools
import os
import random

import vlib
from vlib import Check, Scratch
from ddpmodel import *
from ddpmodel.gen import Gen, StmtGen, POOL, wrap_in_function
from ddpmodel import runner
from checks import progcheck

PID = "C01"

ARITH = ["plus", "minus", "mal", "durch"]
CMPS = ["kleiner", "groesser", "kleinergleich", "groessergleich", "gleich", "ungleich"]


def cell_program(rnd, k):
    """one program of the operator cell sweep: ~45 observations of op(operand, operand) over boundary values,
    operands as literals and as variables"""
    g = Gen(rnd, with_struct=True, with_any=True)
    # variables holding pool values
    for ty in (Z, K, B, W, C, T, L(Z), L(T), L(K)):
        for _ in range(2):
            g.declare(ty)
    cells = []
    num_pairs = [(Z, Z), (K, K), (B, B), (Z, K), (K, Z), (B, K), (K, B), (Z, B), (B, Z)]
    for op in ARITH:
        for ta, tb in num_pairs:
            rt = K if (op == "durch" or K in (ta, tb)) else (B if (ta == B and tb == B) else Z)
            cells.append(("bin", op, ta, tb, rt))
    for op in ["kleiner", "groesser", "kleinergleich", "groessergleich"]:
        for ta, tb in num_pairs:
            cells.append(("bin", op, ta, tb, W))
    for op in ["gleich", "ungleich"]:
        for t in g.types:
            cells.append(("bin", op, t, t, W))
    for ta, tb in [(Z, Z), (B, B), (Z, B), (B, Z)]:
        cells.append(("bin", "modulo", ta, tb, B if (ta == B and tb == B) else Z))
        for op in ("lund", "loder", "lkontra"):
            cells.append(("bin", op, ta, tb, B if (ta == B and tb == B) else Z))
        for op in ("links", "rechts"):
            cells.append(("shift", op, ta, tb, ta))
    for op, t in [("neg", Z), ("neg", K), ("betrag", Z), ("betrag", K), ("lnicht", Z), ("lnicht", B), ("nicht", W),
                  ("laenge", T), ("laenge", L(Z)), ("laenge", L(T))]:
        cells.append(("un", op, t, None, W if op == "nicht" else (Z if op == "laenge" else t)))
    for t in (Z, K):
        cells.append(("zwischen", t))
    for src, dst in [(K, Z), (B, Z), (W, Z), (C, Z), (Z, K), (B, K), (Z, B), (K, B), (Z, W), (B, W), (B, C), (Z, T), (K, T), (B, T), (W, T), (C, T)]:
        cells.append(("cast", src, dst))
    for t in (T, L(Z), L(T), L(C), L(K)):
        cells.append(("index", t))
        cells.append(("slice", t))
    for form in [(T, T), (T, C), (C, T), (L(Z), L(Z)), (L(Z), Z), (Z, L(Z)), (Z, Z), (L(T), T), (T, L(T)), (L(T), L(T)), (C, C), (K, K), (W, W)]:
        cells.append(("concat",) + form)
    rnd.shuffle(cells)
    n = 0
    for cell in cells * 2:
        if n >= 48:
            break
        leaf = g.leaf
        kind = cell[0]
        if kind == "bin":
            _, op, ta, tb, rt = cell
            e = Bin(op, leaf(ta), leaf(tb), rt)
        elif kind == "shift":
            _, op, ta, tb, rt = cell
            e = Bin(op, leaf(ta), Lit(tb, rnd.choice([0, 1, 7] + ([8, 31, 63] if ta == Z else []))), rt)
        elif kind == "un":
            _, op, t, _, rt = cell
            e = Un(op, leaf(t), rt)
        elif kind == "zwischen":
            t = cell[1]
            e = Ter("zwischen", leaf(t), leaf(t), leaf(t), W)
        elif kind == "cast":
            e = Cast(leaf(cell[1]), cell[2])
        elif kind == "index":
            t = cell[1]
            e = Bin("index", leaf(t), Lit(Z, rnd.randint(1, 3)), C if t == T else t[1])
        elif kind == "slice":
            t = cell[1]
            form = rnd.choice(["slice", "ab", "biszum"])
            if form == "slice":
                e = Ter("slice", leaf(t), Lit(Z, rnd.randint(-1, 4)), Lit(Z, rnd.randint(0, 14)), t)
            else:
                e = Bin(form, leaf(t), Lit(Z, rnd.randint(-1, 14)), t)
        elif kind == "concat":
            ta, tb = cell[1], cell[2]
            rt = T if (T in (ta, tb) and not is_list(ta) and not is_list(tb)) else (ta if is_list(ta) else tb if is_list(tb) else L(ta))
            e = Bin("verkettet", leaf(ta), leaf(tb), rt)
        if g.try_top(g.observe(e)):
            g.cells.add(tuple(str(x) for x in cell))
            n += 1
    return g


def tree_program(rnd, k):
    g = Gen(rnd)
    for ty in rnd.sample(g.types, 8):
        g.declare(ty)
    n = tries = 0
    while n < 30 and tries < 120:
        tries += 1
        ty = rnd.choice(g.types)
        if g.try_top(g.observe(g.expr(ty, rnd.randint(2, 4)))):
            n += 1
    return g


def stmt_program(rnd, k):
    g = StmtGen(rnd)
    local = rnd.random() < 0.35      # every variable a local of one function (globals and locals are compiled differently)
    g.build(n_items=rnd.randint(12, 28), d=2, nest=rnd.randint(1, 3), n_funcs=rnd.randint(0, 2) if local else rnd.randint(0, 3), pure_funcs=local)
    if local and wrap_in_function(g.prog, allow_funcs=True):
        g.cells.add(("holders", "local"))
    return g


GENS = [("cells", cell_program), ("trees", tree_program), ("stmts", stmt_program)]


def run(tier):
    vlib.ensure_build(asan=False)
    chk = Check(PID, tier)
    nprog, other_levels = (150, 50) if tier == "quick" else (3000, 3000)
    chk.rule = ("programs from three seeded generators (operator cell sweep over boundary value pools; random expression trees of depth <= 4; random "
                "statement programs with nested if/loops of every form, functions with value and Referenz parameters, early exits); each observation is a "
                "tagged output line. A program is distinct by its source hash and non-trivial when it produced >= 1 observation. Oracle: byte-exact stdout "
                "and exit status vs the independent reference evaluator (ddpmodel), at -O 1 for every program and at -O 0 and -O 2 for a subset.")
    chk.assumptions = ["model domain: no modulo by 0, shifts within the width, float->int conversions only when representable, no NaN comparisons, canonical "
                       "decimal texts for text->number casts, no assignment to a loop counter, repeat counts >= 0 (generators filter by the model itself)",
                       "locale shim de_DE.UTF-8 (decimal comma) is test environment", "runtime-error paths are C06's business: programs stay inside the domain"]
    with Scratch("c01") as sc:
        jobs = []
        for i in range(nprog):
            gname, gfn = GENS[i % len(GENS)]
            levels = [1] + ([0, 2] if (i < other_levels or gname == "stmts") else [])     # statement programs always at every level
            jobs.append((i, gname, gfn, levels))

        def work(job):
            i, gname, gfn, levels = job
            rnd = random.Random("%d/%s/%d" % (chk.seed, PID, i))
            g = gfn(rnd, i)
            prog = g.prog
            try:
                exp = runner.expected(prog)
            except ModelDomain:
                return None
            out = []
            for O in levels:
                wd = os.path.join(sc.path, "p%d" % i)
                cls, res = runner.judge(prog, wd, O=O, exp=exp)
                out.append((O, cls, res))
            return (i, gname, g, prog, exp, out)

        results = vlib.pmap(work, jobs)
        nviol = 0
        for r in results:
            if r is None:
                chk.count("discarded_outside_model")
                continue
            i, gname, g, prog, exp, outs = r
            src_hash = hash(outs[0][2].get("src", ""))
            nobs = exp[0].count("#")
            chk.note_case(src_hash, nontrivial=nobs > 0)
            chk.count("observations", nobs)
            chk.count("programs_" + gname)
            for c in g.cells:
                chk.distinct.add(("cell",) + tuple(c) if isinstance(c, tuple) else ("cell", c))
            for O, cls, res in outs:
                chk.count("executions")
                if cls == "ok":
                    continue
                if cls == "inconclusive":
                    chk.inconclusive += 1
                    continue
                nviol += 1
                if nviol > 6:      # enough distinct witnesses for one run; the rest is counted
                    chk.count("further_failing_executions")
                    continue
                tag = progcheck.first_diff_tag(exp[0], res.get("out", "")) if cls in ("diff",) else None
                progcheck.handle_violation(chk, "behaviour", prog, cls, res, O, os.path.join(sc.path, "v%d_%d" % (i, O)), reduce_budget=60)
            if i in (0, 1, 2):
                chk.sample({"generator": gname, "source_head": outs[0][2].get("src", "")[:600], "expected_stdout_head": exp[0][:200], "verdicts": [(O, c) for O, c, _ in outs]})
        chk.extra["cells_covered"] = len([d for d in chk.distinct if isinstance(d, tuple) and d and d[0] == "cell"])
    return chk.finish(min_events=30)


def replay(path):
    vlib.ensure_build(asan=False)
    with Scratch("c01r") as sc:
        src = open(os.path.join(path, "witness.ddp")).read()
        import json
        res = json.load(open(os.path.join(path, "result.json")))
        v = json.load(open(os.path.join(path, "violation.json")))
        O = v["signature"].get("O", 1)
        r = runner.run_real(None, sc.path, O=O, src=src)
        exp = res.get("expected", {})
        bad = r["status"] != "ran" or r["out"] != exp.get("out") or r["rc"] != exp.get("rc")
        print("status", r["status"], "rc", r.get("rc"), "expected rc", exp.get("rc"))
        if bad:
            print("VIOLATION property=%s replay=%s" % (PID, path))
            return 1
    return 0
