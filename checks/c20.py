"""C20 Duplicate aliases are always rejected; declared aliases stay callable.

Part 1 (history level, in `ddpprobe trie`): the real alias_trie is driven with the parser's own
tokenEqual / tokenLess exactly as the parser drives it (aliasExists = Contains && value != nil, then
Insert; Search for call matching and for enumeration; Copy) against a plain-list model: a key is
present iff some inserted key is element-wise tokenEqual. All insertion orders of <= N keys of twelve
key universes (exhaustive) + seeded random histories of <= 12 keys. The comparator pairs with
(not eq, not less either way) or (eq and less) are reported as root cause information.

Part 2 (program level): generated populations of function aliases (same / almost same token pattern,
same / equivalent / look-alike parameter types, value vs Referenz) declared in one file or spread over
imported modules, in permuted declaration / import orders. Oracle: a declaration or import that brings
a colliding alias is rejected with "steht bereits fuer" (codes 2007 / 2008), everything else is not;
then the program without the rejected declarations, plus one call per alias, is accepted."""
import json
import os
import random
import re
import subprocess
import threading

import vlib
from vlib import Check, Scratch, Probe, ProbeDied, log

PID = "C20"
LOOKALIKE = "look-alike placeholder types: tokenLess equal-by-name, tokenEqual distinct"

# ------------------------------------------------------------------ part 1


def run_trie(args):
    p = subprocess.run([vlib.PROBE, "trie"] + args, stdout=subprocess.PIPE, stderr=subprocess.PIPE, env=vlib.base_env())
    agg, bad, cmp_ = None, [], []
    for l in p.stdout.decode("utf-8", "replace").split("\n"):
        if l.startswith("AGG "):
            agg = json.loads(l[4:])
        elif l.startswith("BAD "):
            bad.append(json.loads(l[4:]))
        elif l.startswith("CMP "):
            cmp_.append(json.loads(l[4:]))
    return args, p.returncode, agg, bad, cmp_, p.stderr.decode("utf-8", "replace")[-3000:]


def part1(chk, tier):
    maxlen, usize, nrand, nmap = (4, 8, 24000, 16000) if tier == "quick" else (6, 10, 1200000, 400000)
    nuni = 12
    jobs = [["--cmp", "--parts", "1000000", "--part", "999999"]]  # comparator report only
    for p in range(nuni):
        jobs.append(["--maxlen", str(maxlen), "--usize", str(usize), "--parts", str(nuni), "--part", str(p)])
    rparts = vlib.NCPU
    for p in range(rparts):
        jobs.append(["--maxlen", "0", "--usize", "0", "--random", str(nrand), "--maphist", str(nmap), "--seed", str(chk.seed), "--parts", str(rparts), "--part", str(p)])
    res = vlib.pmap(run_trie, jobs)
    tot = {}
    badby = {}
    cmpinfo = {}
    for args, rc, agg, bad, cmp_, err in res:
        if agg is None:
            chk.violation({"level": "trie", "law": "worker died", "stderr": vlib.classify_death(err)[0]}, files={"stderr.txt": err, "args.json": json.dumps(args)}, text="ddpprobe trie died")
            continue
        for k, v in agg.items():
            if isinstance(v, int):
                if k in ("max_keys_in_history", "vocabulary_tokens"):
                    tot[k] = max(tot.get(k, 0), v)
                else:
                    tot[k] = tot.get(k, 0) + v
        for k, v in agg["bad_by_law_and_cause"].items():
            badby[k] = badby.get(k, 0) + v
        for k, v in agg["comparator_inconsistent_pairs_by_cause"].items():
            cmpinfo[k] = cmpinfo.get(k, 0) + v
        for c in cmp_:
            chk.extra.setdefault("comparator_inconsistent_examples", [])
            if len(chk.extra["comparator_inconsistent_examples"]) < 8:
                chk.extra["comparator_inconsistent_examples"].append(c)
        for b in bad:
            chk.violation({"level": "ordered_map" if b["law"].startswith("ordered map:") else "trie", "law": b["law"], "cause": b["cause"]},
                          files={"history.json": json.dumps(b, indent=1, ensure_ascii=False), "args.json": json.dumps(args)},
                          text="universe %r, history %s: key %r: %s: got %s, want %s; inconsistent comparator pairs: %s" % (
                              b["universe"], b["history"], b["key"], b["law"], b["got"], b["want"], b.get("inconsistent_pairs")))
    chk.evaluations += tot.get("histories", 0) + tot.get("ordered_map_histories", 0)
    chk.distinct_extra += tot.get("exhaustive_histories", 0)  # insertion orders are enumerated without repetition
    chk.extra["trie"] = tot
    chk.extra["trie_bad_by_law_and_cause"] = badby
    chk.extra["comparator_inconsistent_pairs_by_cause"] = cmpinfo
    return maxlen, usize, nrand


# ------------------------------------------------------------------ part 2: programs

PRIM_SURF = {
    ("p", "Zahl"): ("Zahl", "Zahlen Referenz"),
    ("p", "Kommazahl"): ("Kommazahl", "Kommazahlen Referenz"),
    ("p", "Text"): ("Text", "Text Referenz"),
    ("p", "Wahrheitswert"): ("Wahrheitswert", "Wahrheitswert Referenz"),
    ("l", ("p", "Zahl")): ("Zahlen Liste", "Zahlen Listen Referenz"),
}
MAIN_VARS = {
    ("p", "Zahl"): ("vz", "Die Zahl vz ist der Standardwert von einer Zahl."),
    ("p", "Kommazahl"): ("vk", "Die Kommazahl vk ist der Standardwert von einer Kommazahl."),
    ("p", "Text"): ("vt", "Der Text vt ist der Standardwert von einem Text."),
    ("p", "Wahrheitswert"): ("vw", "Der Wahrheitswert vw ist der Standardwert von einem Wahrheitswert."),
    ("l", ("p", "Zahl")): ("vl", "Die Zahlen Liste vl ist der Standardwert von einer Zahlen Liste."),
    ("k", "main", "Kreis"): ("vkr", "Der Kreis vkr ist der Standardwert von einem Kreis."),
    ("k", "main", "Punkt"): ("vp", "Der Punkt vp ist der Standardwert von einem Punkt."),
    ("d", "main", "Marke"): ("vm", "Die Marke vm ist der Standardwert von einer Marke."),
}
PATTERNS = {
    0: ["zeige", "zeige jetzt", "starte"],
    1: ["zeige <a>", "zeige <a> jetzt", "<a> zeigen", "starte <a>"],
    2: ["verbinde <a> mit <b>", "verbinde <b> mit <a>", "zeige <a> <b>", "zeige <a> mit <b>"],
}


class PType:
    """a parameter type as the declaring module writes it"""
    __slots__ = ("canon", "surface", "ref", "printed")

    def __init__(self, canon, surface, ref, printed):
        self.canon, self.surface, self.ref, self.printed = canon, surface, ref, printed


def ptype(canon, ref, name=None):
    """name: surface name of a named type (Punkt, Kreis, Marke, Wert, Hausnummer)"""
    if name is None:
        s = PRIM_SURF[canon]
        printed = s[0]
        return PType(canon, s[1] if ref else s[0], ref, printed)
    printed = name if canon[0] in "kd" else PRIM_SURF[canon][0]  # aliases print as their target after stripping
    return PType(canon, name + (" Referenz" if ref else ""), ref, printed)


class Func:
    __slots__ = ("name", "module", "params", "aliases", "ret")

    def __init__(self, name, module, params, aliases, ret):
        self.name, self.module, self.params, self.aliases, self.ret = name, module, params, aliases, ret

    def key(self, alias):
        """model key of an alias: words by spelling, placeholders by (canonical type, reference-ness)"""
        k = []
        for w in alias.split(" "):
            if w.startswith("<"):
                pt = dict(self.params)[w[1:-1]]
                k.append(("p", pt.canon, pt.ref))
            else:
                k.append(("w", w))
        return tuple(k)

    def text(self, public, drop=()):
        als = [a for a in self.aliases if a not in drop]
        head = "Die %sFunktion %s" % ("öffentliche " if public else "", self.name)
        if len(self.params) == 1:
            head += " mit dem Parameter %s vom Typ %s" % (self.params[0][0], self.params[0][1].surface)
        elif len(self.params) == 2:
            head += " mit den Parametern %s und %s vom Typ %s und %s" % (self.params[0][0], self.params[1][0], self.params[0][1].surface, self.params[1][1].surface)
        lines = [head + (", " if self.params else " ") + "gibt eine Zahl zurück, macht:", "\tGib %d zurück." % self.ret, "Und kann so benutzt werden:"]
        for i, a in enumerate(als):
            lines.append('\t"%s"%s' % (a, " oder" if i + 1 < len(als) else ""))
        return lines


FIELD_ART = {"Zahl": "der", "Kommazahl": "der", "Text": "dem", "Wahrheitswert": "dem", "Zahlen Liste": "der", "Punkt": "dem", "Kreis": "dem", "Marke": "der",
             "Hausnummer": "der", "Wert": "dem"}


class Ctor(Func):
    """a Kombination declared in main: its constructor aliases live in the same alias population as the function aliases
    (same keys: words by spelling, placeholders by the field's type); `name` is the name of the Kombination"""
    __slots__ = ()

    def text(self, public, drop=()):
        als = [a for a in self.aliases if a not in drop]
        lines = ["Wir nennen die Kombination aus"]
        for n, pt in self.params:
            lines.append("\t%s %s %s," % (FIELD_ART[pt.surface], pt.surface, n))
        lines.append("einen %s, und erstellen sie so:" % self.name)
        for i, a in enumerate(als):
            lines.append('\t"%s"%s' % (a, " oder" if i + 1 < len(als) else ""))
        return lines


class Module:
    __slots__ = ("name", "punkt", "marke", "wert", "funcs")

    def __init__(self, name, punkt, marke, wert):
        self.name, self.punkt, self.marke, self.wert, self.funcs = name, punkt, marke, wert, []

    def text(self, drop):
        """drop: {func name: set of aliases not to declare}; a function without aliases left is not declared"""
        l = []
        if self.punkt:
            l += ["Wir nennen die öffentliche Kombination aus", "\tder öffentlichen Zahl x mit Standardwert 0,", "einen Punkt.",
                  "Der öffentliche Punkt ursprung_%s ist der Standardwert von einem Punkt." % self.name]
        if self.marke:
            l += ["Wir definieren eine Marke öffentlich als eine Zahl.", "Die öffentliche Marke marke_%s ist der Standardwert von einer Marke." % self.name]
        if self.wert:
            l += ["Wir nennen eine Zahl öffentlich auch einen Wert."]
        for f in self.funcs:
            d = drop.get(f.name, set())
            if len(d) < len(f.aliases):
                l += f.text(True, d)
        return "\n".join(l) + "\n"


def arg_var(canon):
    if canon in MAIN_VARS:
        return MAIN_VARS[canon][0]
    if canon[0] == "k":
        return "ursprung_%s" % canon[1]
    if canon[0] == "d":
        return "marke_%s" % canon[1]
    raise KeyError(canon)


def gen_types_for(rng, where, mods_visible, main_types):
    """parameter types that a function declared in `where` can name. mods_visible: module (or None) whose public types main can name"""
    pool = []
    prims = [("p", "Zahl"), ("p", "Zahl"), ("p", "Text"), ("p", "Kommazahl"), ("l", ("p", "Zahl")), ("p", "Wahrheitswert")]
    for c in prims:
        pool.append(ptype(c, False))
    pool.append(ptype(("p", "Zahl"), True))
    pool.append(ptype(("p", "Text"), True))
    pool.append(ptype(("l", ("p", "Zahl")), True))
    if isinstance(where, Module):
        m = where
        if m.punkt:
            pool += [ptype(("k", m.name, "Punkt"), False, "Punkt")] * 3
        if m.marke:
            pool += [ptype(("d", m.name, "Marke"), False, "Marke")] * 2
        if m.wert:
            pool += [ptype(("p", "Zahl"), False, "Wert")] * 2
    else:
        pool += [ptype(("k", "main", "Kreis"), False, "Kreis")] * 2 + [ptype(("k", "main", "Kreis"), True, "Kreis")]
        pool += [ptype(("p", "Zahl"), False, "Hausnummer")] * 2 + [ptype(("p", "Zahl"), True, "Hausnummer")]
        if "Punkt" in main_types:
            pool += [ptype(("k", "main", "Punkt"), False, "Punkt")] * 3
        if "Marke" in main_types:
            pool += [ptype(("d", "main", "Marke"), False, "Marke")] * 2
        m = mods_visible
        if m is not None:
            if m.punkt:
                pool += [ptype(("k", m.name, "Punkt"), False, "Punkt")] * 3
            if m.marke:
                pool += [ptype(("d", m.name, "Marke"), False, "Marke")] * 2
            if m.wert:
                pool += [ptype(("p", "Zahl"), False, "Wert")]
    return pool


def gen_func(rng, name, where, pool, ret, bias):
    """bias: preferred (arity, pattern) choices so that collisions are frequent"""
    arity = rng.choice(bias["arity"])
    params = [(n, rng.choice(pool)) for n in ("a", "b")[:arity]]
    pats = PATTERNS[arity]
    k = 1 if rng.random() < 0.75 else 2
    aliases = rng.sample(pats[:bias["npat"]] if len(pats[:bias["npat"]]) >= k else pats, k)
    f = Func(name, where.name if isinstance(where, Module) else "main", params, aliases, ret)
    # no two aliases of one declaration may coincide (that case is not part of the oracle)
    if len({f.key(a) for a in aliases}) < len(aliases):
        f.aliases = aliases[:1]
    return f


class Scenario:
    """population + one order of main's items"""

    def __init__(self, rng, kind):
        self.kind = kind
        nmods = 0 if kind == "single-file" else rng.randint(2, 4)
        lookalikes = kind == "modules-lookalike"
        self.mods = []
        for i in range(nmods):
            name = "m" + "abcd"[i]
            if lookalikes:
                m = Module(name, rng.random() < 0.8, rng.random() < 0.4, rng.random() < 0.3)
            else:
                # at most one module declares Punkt / Marke: no two distinct types print alike
                m = Module(name, i == 0 and rng.random() < 0.6, i == 1 and rng.random() < 0.5, rng.random() < 0.4)
            self.mods.append(m)
        self.whole = rng.choice(self.mods) if self.mods and rng.random() < 0.6 else None  # the one module imported as a whole
        self.main_types = set()
        taken_punkt = self.whole is not None and self.whole.punkt
        taken_marke = self.whole is not None and self.whole.marke
        if not taken_punkt and rng.random() < (0.5 if lookalikes or not any(m.punkt for m in self.mods) else 0.0):
            self.main_types.add("Punkt")
        if not taken_marke and rng.random() < (0.3 if lookalikes or not any(m.marke for m in self.mods) else 0.0):
            self.main_types.add("Marke")
        bias = {"arity": rng.choice([[1], [1, 1, 2], [0, 1, 2], [2], [0, 1]]), "npat": rng.choice([1, 2, 2, 3, 4])}
        n = 0
        for m in self.mods:
            pool = gen_types_for(rng, m, None, set())
            own = set()  # a module is itself free of duplicates
            for _ in range(rng.randint(1, 3)):
                n += 1
                for attempt in range(20):
                    f = gen_func(rng, "f%d_%s" % (n, m.name), m, pool, n, bias)
                    ks = {f.key(a) for a in f.aliases}
                    if not (ks & own):
                        own |= ks
                        m.funcs.append(f)
                        break
        # main's items: imports and own functions in a random order
        items = [("import", m) for m in self.mods]
        nmain = rng.randint(2, 6) if kind == "single-file" else rng.randint(0, 3)
        items += [("func", None)] * nmain
        rng.shuffle(items)
        self.items = []
        visible = None
        for kind_, m in items:
            if kind_ == "import":
                self.items.append(("import", m))
                if m is self.whole:
                    visible = m
            else:
                n += 1
                pool = gen_types_for(rng, "main", visible, self.main_types)
                f = gen_func(rng, "f%d_main" % n, "main", pool, n, bias)
                if f.params and not any(pt.ref for _, pt in f.params) and rng.random() < 0.4:
                    f = Ctor("Bund%d" % n, "main", f.params, f.aliases, n)       # the same aliases as constructors of a Kombination
                self.items.append(("func", f))

    def permuted(self, rng):
        """same population, another order of main's items (functions that name the whole-imported module's types stay after that import)"""
        s = Scenario.__new__(Scenario)
        s.kind, s.mods, s.whole, s.main_types = self.kind, self.mods, self.whole, self.main_types
        items = list(self.items)
        rng.shuffle(items)
        if self.whole is not None:
            wi = next(i for i, it in enumerate(items) if it[0] == "import" and it[1] is self.whole)
            dependent = [it for it in items[:wi] if it[0] == "func" and any(pt.canon[0] in "kd" and pt.canon[1] == self.whole.name or pt.surface.startswith("Wert") for _, pt in it[1].params)]
            for it in dependent:
                items.remove(it)
            wi = next(i for i, it in enumerate(items) if it[0] == "import" and it[1] is self.whole)
            items[wi + 1:wi + 1] = dependent
        s.items = items
        return s

    # ---- model
    def model(self):
        """per item: set of (func, alias) rejected as duplicates; alive list [(key, func, alias)]"""
        alive = []
        rejected = []
        for kind_, x in self.items:
            rej = []
            funcs = x.funcs if kind_ == "import" else [x]
            for f in funcs:
                new = []
                for a in f.aliases:
                    k = f.key(a)
                    if any(k == k2 for k2, _, _ in alive):
                        rej.append((f, a))
                    else:
                        new.append((k, f, a))
                alive += new  # the aliases of one declaration are checked first and inserted together
            rejected.append(rej)
        return rejected, alive

    def lookalike_siblings(self):
        """placeholders that are siblings in the alias trie, print alike and are distinct types"""
        keys = []
        for kind_, x in self.items:
            for f in (x.funcs if kind_ == "import" else [x]):
                for a in f.aliases:
                    printed = []
                    for w in a.split(" "):
                        printed.append(dict(f.params)[w[1:-1]].printed if w.startswith("<") else None)
                    keys.append((f.key(a), printed))
        found = set()
        for k1, p1 in keys:
            for k2, p2 in keys:
                for i in range(min(len(k1), len(k2))):
                    if k1[:i] != k2[:i]:
                        break
                    a, b = k1[i], k2[i]
                    if a[0] == "p" and b[0] == "p" and a != b and a[2] == b[2] and p1[i] == p2[i] and (a[1][0] == "l") == (b[1][0] == "l"):
                        found.add(p1[i])
        return sorted(found)

    # ---- text
    def write(self, d, drop=None, calls=False):
        """writes the modules and main.ddp into d; returns (main path, item line ranges, call lines)"""
        drop = drop or {}
        for m in self.mods:
            vlib.write_file(os.path.join(d, m.name + ".ddp"), m.text(drop))
        lines = ["Wir nennen die Kombination aus", "\tder Zahl r mit Standardwert 0,", "einen Kreis.", "Wir nennen eine Zahl auch eine Hausnummer."]
        if "Punkt" in self.main_types:
            lines += ["Wir nennen die Kombination aus", "\tder Zahl x mit Standardwert 0,", "einen Punkt."]
        if "Marke" in self.main_types:
            lines += ["Wir definieren eine Marke als eine Zahl."]
        ranges = []
        pad = 0
        for kind_, x in self.items:
            start = len(lines) + 1
            if kind_ == "import":
                m = x
                names = []
                for f in m.funcs:
                    if len(drop.get(f.name, set())) < len(f.aliases):
                        names.append(f.name)
                if m is self.whole:
                    lines.append('Binde "%s" ein.' % m.name)
                else:
                    if m.punkt:
                        names.append("ursprung_" + m.name)
                    if m.marke:
                        names.append("marke_" + m.name)
                    if names:
                        lst = names[0] if len(names) == 1 else (", ".join(names[:-1]) + " und " + names[-1])
                        lines.append('Binde %s aus "%s" ein.' % (lst, m.name))
            else:
                d_ = drop.get(x.name, set())
                if len(d_) < len(x.aliases):
                    lines += x.text(False, d_)
            ranges.append((start, len(lines)))
            # a plain declaration after every item: the parser's error recovery re-synchronises here
            pad += 1
            lines.append("Die Zahl pad%d ist 0." % pad)
        call_lines = []
        if calls:
            used = set()
            _, alive = self.model()
            for k, f, a in alive:
                for _, pt in f.params:
                    used.add(pt.canon)
            for c in sorted(used, key=repr):
                if c in MAIN_VARS:
                    lines.append(MAIN_VARS[c][1])
            n = 0
            for k, f, a in alive:
                n += 1
                words = [arg_var(dict(f.params)[w[1:-1]].canon) if w.startswith("<") else w for w in a.split(" ")]
                lines.append(("Der %s r%d ist %s." % (f.name, n, " ".join(words))) if isinstance(f, Ctor) else ("Die Zahl r%d ist %s." % (n, " ".join(words))))
                call_lines.append((len(lines), f, a, k))
        main = os.path.join(d, "main.ddp")
        vlib.write_file(main, "\n".join(lines) + "\n")
        return main, ranges, call_lines

    def describe(self):
        out = []
        for kind_, x in self.items:
            if kind_ == "import":
                out.append("import %s%s: %s" % (x.name, " (whole)" if x is self.whole else "", "; ".join("%s %s [%s]" % (f.name, f.aliases, ", ".join(p.surface for _, p in f.params)) for f in x.funcs)))
            else:
                out.append("%s %s %s [%s]" % ("Kombination" if isinstance(x, Ctor) else "func", x.name, x.aliases, ", ".join(p.surface for _, p in x.params)))
        return out


def frame_of(r):
    """innermost repository function on the panic stack (the probe's own `frame` cuts generic names short)"""
    for l in (r.get("stack") or "").split("\n"):
        if l.startswith("github.com/DDP-Projekt/Kompilierer/src/") and "panic_wrapper" not in l:
            l = l[len("github.com/DDP-Projekt/Kompilierer/"):]
            return l[:l.rfind("(")] if "(" in l else l
    return r.get("frame", "")


def short_panic(r):
    return (r.get("panic") or "").replace("ParserError: ", "").replace("runtime error: ", "")[:80]


def skeleton(k):
    return tuple(("p",) if it[0] == "p" else it for it in k)


_tl = threading.local()
_probes = []


def parse(d, main, tag, dump=False):
    """one ddpprobe child per worker thread, reused for all its programs"""
    pr = getattr(_tl, "probe", None)
    if pr is None:
        pr = _tl.probe = Probe(os.path.dirname(d.rstrip("/")))
        _probes.append(pr)
    return pr.request({"op": "parse", "id": tag, "file": main, "dump": dump}, wall_s=300)


def close_probes():
    for pr in _probes:
        pr.close()
    del _probes[:]
    _tl.__dict__.clear()


def read_files(d):
    out = {}
    for fn in sorted(os.listdir(d)):
        if fn.endswith(".ddp"):
            out[fn] = open(os.path.join(d, fn), encoding="utf-8").read()
    return out


def judge_scenario(chk, sc, s, tag):
    """phase 1: duplicates rejected, nothing else; phase 2: every declared alias callable"""
    d1 = sc.sub(tag + "-decl")
    main, ranges, _ = s.write(d1)
    rejected, alive = s.model()
    look = s.lookalike_siblings()
    cause = LOOKALIKE if look else "none: no two sibling placeholders of distinct types print alike"
    base_sig = {"level": "program", "scenario": s.kind, "cause": cause}
    info = {"items": s.describe(), "expected_rejected": [[(f.name, a) for f, a in r] for r in rejected], "lookalike_type_names": look}
    chk.note_case(json.dumps(info["items"], ensure_ascii=False))
    chk.count("programs_" + s.kind)
    chk.count("aliases_declared", sum(len(f.aliases) for k_, x in s.items for f in (x.funcs if k_ == "import" else [x])))
    chk.count("expected_duplicates", sum(len(r) for r in rejected))
    if look:
        chk.count("programs_with_lookalike_sibling_placeholders")

    def files(d, r):
        f = read_files(d)
        f["result.json"] = json.dumps(r, indent=1, ensure_ascii=False)
        f["scenario.json"] = json.dumps(info, indent=1, ensure_ascii=False)
        return f

    try:
        r = parse(d1, main, tag)
    except ProbeDied as e:
        chk.violation(dict(base_sig, law="front end returns normally", got=vlib.classify_death(e.stderr_tail)[0]), files=files(d1, {"stderr": e.stderr_tail}), text="worker died on the declarations")
        return
    if r.get("panic"):
        chk.violation(dict(base_sig, law="front end returns normally on the declarations", got=short_panic(r), frame=frame_of(r)), files=files(d1, r),
                      text="panic while parsing the declarations: %s at %s" % (r["panic"], frame_of(r)))
        return
    ok = True
    dup_lines = set()
    for dg in r.get("diags") or []:
        if dg["level"] != 2:
            continue
        isdup = dg["code"] in (2007, 2008) and "steht bereits für" in dg["msg"] and dg["file"].endswith("main.ddp")
        if not isdup:
            chk.inconclusive += 1
            chk.count("harness_unexpected_diagnostic")
            log("[C20] %s: unexpected diagnostic %d line %d in %s: %s" % (tag, dg["code"], dg["l1"], os.path.basename(dg["file"]), dg["msg"][:200]))
            log("\n".join(info["items"]))
            return
        dup_lines.add(dg["l1"])
    for (lo, hi), rej, (kind_, x) in zip(ranges, rejected, s.items):
        got = any(lo <= l <= hi for l in dup_lines)
        chk.count("items_judged")
        what = "import" if kind_ == "import" else "declaration"
        if rej and not got:
            ok = False
            chk.violation(dict(base_sig, law="duplicate alias is rejected (%s)" % what), files=files(d1, r),
                          text="%s at lines %d-%d brings %s which coincide with aliases already in scope, but no 'steht bereits für' diagnostic was reported" % (
                              what, lo, hi, [(f.name, a) for f, a in rej]))
        elif got and not rej:
            ok = False
            chk.violation(dict(base_sig, law="only duplicates are rejected (%s)" % what), files=files(d1, r),
                          text="%s at lines %d-%d was rejected as duplicate but no alias of it coincides with one in scope" % (what, lo, hi))
        elif rej:
            chk.count("duplicates_rejected_as_expected")
    stray = [l for l in dup_lines if not any(lo <= l <= hi for lo, hi in ranges)]
    if stray:
        chk.inconclusive += 1
        log("[C20] %s: duplicate diagnostic outside every item: lines %s" % (tag, stray))
        return
    if not ok:
        return
    # phase 2: the same program without the rejected aliases, plus one call per alias in scope
    drop = {}
    for rej in rejected:
        for f, a in rej:
            drop.setdefault(f.name, set()).add(a)
    d2 = sc.sub(tag + "-call")
    main2, _, call_lines = s.write(d2, drop=drop, calls=True)
    try:
        r2 = parse(d2, main2, tag + "c", dump=True)
    except ProbeDied as e:
        chk.violation(dict(base_sig, law="declared aliases are callable: front end returns normally", got=vlib.classify_death(e.stderr_tail)[0]), files=files(d2, {"stderr": e.stderr_tail}),
                      text="worker died on the calls")
        return
    if r2.get("panic"):
        chk.violation(dict(base_sig, law="declared aliases are callable: front end returns normally", got=short_panic(r2), frame=frame_of(r2)), files=files(d2, r2),
                      text="panic while parsing the program with one call per declared alias: %s at %s" % (r2["panic"], frame_of(r2)))
        return
    errs = [dg for dg in (r2.get("diags") or []) if dg["level"] == 2]
    if errs:
        dg = errs[0]
        on_call = [c for c in call_lines if c[0] == dg["l1"]]
        skel_n = {}
        for k_, f_, a_ in alive:
            skel_n[skeleton(k_)] = skel_n.get(skeleton(k_), 0) + 1
        if on_call and dg["code"] in (3000, 3001) and any(isinstance(f_, Ctor) for k_, f_, a_ in alive if skeleton(k_) == skeleton(on_call[0][3])) and skel_n[skeleton(on_call[0][3])] > 1:
            # the same words with another placeholder type / Referenz-ness exist: which one a call with this argument reaches is C09's
            # business; a constructor and a function differ in their result type, so the typed call line cannot be judged here
            chk.count("calls_not_judged_constructor_shares_word_pattern")
            return
        if on_call and dg["file"].endswith("main.ddp"):
            chk.violation(dict(base_sig, law="declared alias is callable", code=dg["code"]), files=files(d2, r2),
                          text="call of alias %r of %s at line %d is rejected: %s" % (on_call[0][2], on_call[0][1].name, dg["l1"], dg["msg"]))
        elif dg["code"] in (2007, 2008):
            chk.violation(dict(base_sig, law="only duplicates are rejected (program without the duplicates)"), files=files(d2, r2),
                          text="line %d: %s" % (dg["l1"], dg["msg"]))
        else:
            chk.inconclusive += 1
            chk.count("harness_unexpected_diagnostic")
            log("[C20] %s: unexpected diagnostic in the call program %d line %d in %s: %s" % (tag, dg["code"], dg["l1"], os.path.basename(dg["file"]), dg["msg"][:200]))
        return
    # the call reaches the declaring function when no other alias in scope has the same word pattern
    by_line = {}
    for c in r2.get("calls") or []:
        if c["kind"] in ("call", "struct"):
            by_line.setdefault(c["l1"], []).append(c["name"])
    skel = {}
    for k, f, a in alive:
        skel[skeleton(k)] = skel.get(skeleton(k), 0) + 1
    prefixes_ambiguous = lambda k: any(skeleton(k2)[:len(k)] == skeleton(k) or skeleton(k)[:len(k2)] == skeleton(k2) for k2, f2, a2 in alive if k2 != k)
    for line, f, a, k in call_lines:
        chk.count("calls_accepted")
        if skel[skeleton(k)] == 1 and not prefixes_ambiguous(k):
            chk.count("calls_callee_checked")
            if by_line.get(line) != [f.name]:
                chk.violation(dict(base_sig, law="a call spelled like a declared alias reaches its function"), files=files(d2, r2),
                              text="line %d: alias %r of %s resolved to %s" % (line, a, f.name, by_line.get(line)))
    if len(chk.samples) < 5 and sum(len(x) for x in rejected):
        chk.sample({"kind": s.kind, "items": info["items"], "rejected_as_duplicate": info["expected_rejected"], "calls_accepted": len(call_lines)})


def targeted(rng):
    """fixed populations around the predicted defect (look-alike Kombinationen from several modules)"""
    out = []
    for nmods, extra, dup in ((2, "Kreis", True), (3, None, True), (3, "Kreis", True), (2, None, True), (2, "Kreis", False), (3, None, False)):
        s = Scenario.__new__(Scenario)
        s.kind = "modules-lookalike"
        s.mods = []
        s.main_types = set()
        for i in range(nmods):
            m = Module("m" + "abcd"[i], True, False, False)
            m.funcs.append(Func("zeige_%s" % m.name, m.name, [("p", ptype(("k", m.name, "Punkt"), False, "Punkt"))], ["zeige <p>"], i + 1))
            s.mods.append(m)
        s.whole = s.mods[-1]
        s.items = []
        if extra:
            s.items.append(("func", Func("zeige_kreis", "main", [("p", ptype(("k", "main", "Kreis"), False, "Kreis"))], ["zeige <p>"], 9)))
        s.items += [("import", m) for m in s.mods]
        # a further declaration for the Punkt of the module imported as a whole: a duplicate
        if dup:
            s.items.append(("func", Func("zeige_dup", "main", [("p", ptype(("k", s.whole.name, "Punkt"), False, "Punkt"))], ["zeige <p>"], 10)))
        out.append(s)
    # constructor aliases of a Kombination with fields of DIFFERENT types against function aliases with the same words:
    # same types = duplicate (either order), other types = legal overload that must stay callable
    Z, T, K = ptype(("p", "Zahl"), False), ptype(("p", "Text"), False), ptype(("p", "Kommazahl"), False)
    for ctor_types, func_types, ctor_first in (((Z, T), (Z, T), True), ((Z, T), (Z, T), False), ((Z, T), (T, T), True), ((Z, T), (T, T), False),
                                               ((T, Z), (T, Z), True), ((K, Z), (Z, Z), False), ((Z, T), (Z, Z), True), ((T, K), (T, K), False)):
        for alias in ("verbinde <a> mit <b>", "zeige <a> <b>"):
            s = Scenario.__new__(Scenario)
            s.kind, s.mods, s.whole, s.main_types = "single-file", [], None, set()
            c = Ctor("Bund1", "main", [("a", ctor_types[0]), ("b", ctor_types[1])], [alias], 1)
            f = Func("f2_main", "main", [("a", func_types[0]), ("b", func_types[1])], [alias], 2)
            s.items = [("func", c), ("func", f)] if ctor_first else [("func", f), ("func", c)]
            out.append(s)
    return out


def part2(chk, tier, sc):
    nprog = 50 if tier == "quick" else 1000
    perms = 3
    rng = random.Random(chk.seed * 104729 + 20)
    scenarios = []
    for i in range(nprog):
        kind = ("single-file", "modules", "modules-lookalike")[i % 3]
        s = Scenario(rng, kind)
        scenarios.append(s)
        for _ in range(perms - 1):
            scenarios.append(s.permuted(rng))
    scenarios += targeted(rng)

    def job(i):
        try:
            judge_scenario(chk, sc, scenarios[i], "p%d" % i)
        except ProbeDied as e:
            chk.inconclusive += 1
            log("[C20] probe died: %s" % e)
    vlib.pmap(job, range(len(scenarios)))
    return len(scenarios)


def generic_context_programs():
    """aliases inside the bodies of generic instantiations: every instantiation is parsed with a COPY of the alias trie of the calling
    context plus the aliases of the generic's module. An alias of the calling module must stay callable - before and after the body
    calls (and thereby instantiates) a generic function of another module that has an alias with the same words which the caller
    cannot see (private, or public but not selected by the import). Each function returns its own number; expected output follows
    from visibility alone. -> [(name, files, expected stdout)]"""
    out = []
    for vis in ("private", "public-not-selected"):
        for key in ("same", "longer"):
            for use in ("generic-body", "nested-generic-body", "plain-function-after"):
                for ntypes in (1, 2):
                    pub = "öffentliche " if vis == "public-not-selected" else ""
                    b_alias = '"hilf <x>"' if key == "same" else '"hilf <x> weiter"'
                    b = ('Die %sFunktion Hilf_B mit dem Parameter x vom Typ Zahl, gibt eine Zahl zurück, macht:\n\tGib x plus 1000 zurück.\nUnd kann so benutzt werden:\n\t%s\n\n'
                         'Die öffentliche generische Funktion Innen mit dem Parameter a vom Typ T, gibt ein T zurück, macht:\n\tGib a zurück.\nUnd kann so benutzt werden:\n\t"innen <a>"\n') % (pub, b_alias)
                    head = ('Binde "Duden/Ausgabe" ein.\nBinde Innen aus "b" ein.\n'
                            'Die Funktion Hilf_Main mit dem Parameter x vom Typ Zahl, gibt eine Zahl zurück, macht:\n\tGib x plus 1 zurück.\nUnd kann so benutzt werden:\n\t"hilf <x>"\n')
                    if key == "longer":
                        head += 'Die Zahl weiter ist 0.\n'
                    aussen = ('Die generische Funktion Aussen mit dem Parameter a vom Typ T, gibt eine Zahl zurück, macht:\n\tDie Zahl vorher ist hilf 1.\n\tDas T b ist innen a.\n'
                              '\tDie Zahl nachher ist hilf 1.\n\tGib vorher mal 10000 plus nachher zurück.\nUnd kann so benutzt werden:\n\t"aussen <a>"\n')
                    main = head + aussen
                    exp = ["2"]
                    main += "Schreibe (hilf 1) auf eine Zeile.\n"
                    if use == "nested-generic-body":
                        main += ('Die generische Funktion Ganz_Aussen mit dem Parameter a vom Typ T, gibt eine Zahl zurück, macht:\n\tDie Zahl erst ist aussen a.\n\tGib erst plus (hilf 1) mal 100000000 zurück.\n'
                                 'Und kann so benutzt werden:\n\t"ganz aussen <a>"\n')
                        for arg in (["5", '"x"'][:ntypes]):
                            main += "Schreibe (ganz aussen %s) auf eine Zeile.\n" % arg
                            exp.append(str(20002 + 2 * 100000000))
                    else:
                        for arg in (["5", '"x"'][:ntypes]):
                            main += "Schreibe (aussen %s) auf eine Zeile.\n" % arg
                            exp.append("20002")
                    if use == "plain-function-after":
                        main += 'Die Funktion Danach gibt eine Zahl zurück, macht:\n\tGib hilf 1 zurück.\nUnd kann so benutzt werden:\n\t"danach"\nSchreibe danach auf eine Zeile.\n'
                        exp.append("2")
                    main += "Schreibe (hilf 1) auf eine Zeile.\n"
                    exp.append("2")
                    out.append(("%s/%s/%s/%d" % (vis, key, use, ntypes), {"main.ddp": main, "b.ddp": b}, "\n".join(exp) + "\n"))
    return out


def import_form_programs():
    """equal aliases that arrive from OTHER modules: two modules export functions (or Kombination constructors) with the same alias; the
    importer brings both in through every pairing of import forms (whole module, selective, directory import of both at once, the
    importer's own declaration before / after the import). Every such program must be rejected; the control with distinct aliases must
    be accepted and each alias must call its own function. -> [(name, files, expected stdout or None for 'must be rejected')]"""
    out = []
    fn = lambda pub, name, alias, ret: ('Die %sFunktion %s mit dem Parameter r vom Typ Zahl, gibt eine Zahl zurück, macht:\n\tGib r plus %d zurück.\nUnd kann so benutzt werden:\n\t"%s"\n'
                                        % ("öffentliche " if pub else "", name, ret, alias))
    for kind in ("same", "distinct"):
        a1, a2 = ("die Fläche bei <r>", "die Fläche bei <r>") if kind == "same" else ("die Fläche bei <r>", "der Umfang bei <r>")
        kreis, quadrat = fn(True, "Kreis_F", a1, 100), fn(True, "Quadrat_F", a2, 200)
        use = 'Schreibe (die Fläche bei 1) auf eine Zeile.\n' + ('' if kind == "same" else 'Schreibe (der Umfang bei 1) auf eine Zeile.\n')
        exp = None if kind == "same" else "101\n201\n"
        head = 'Binde "Duden/Ausgabe" ein.\n'
        forms = {
            "directory": ({"formen/kreis.ddp": kreis, "formen/quadrat.ddp": quadrat}, 'Binde alle Module aus "formen" ein.\n'),
            "directory-recursive": ({"formen/kreis.ddp": kreis, "formen/tief/quadrat.ddp": quadrat}, 'Binde rekursiv alle Module aus "formen" ein.\n'),
            "whole+whole": ({"kreis.ddp": kreis, "quadrat.ddp": quadrat}, 'Binde "kreis" ein.\nBinde "quadrat" ein.\n'),
            "selective+selective": ({"kreis.ddp": kreis, "quadrat.ddp": quadrat}, 'Binde Kreis_F aus "kreis" ein.\nBinde Quadrat_F aus "quadrat" ein.\n'),
            "whole+selective": ({"kreis.ddp": kreis, "quadrat.ddp": quadrat}, 'Binde "kreis" ein.\nBinde Quadrat_F aus "quadrat" ein.\n'),
            "own-before-import": ({"kreis.ddp": kreis}, fn(False, "Quadrat_F", a2, 200) + 'Binde "kreis" ein.\n'),
            "own-after-import": ({"kreis.ddp": kreis}, 'Binde "kreis" ein.\n' + fn(False, "Quadrat_F", a2, 200)),
            "own-after-directory": ({"formen/kreis.ddp": kreis}, 'Binde alle Module aus "formen" ein.\n' + fn(False, "Quadrat_F", a2, 200)),
        }
        for fname, (files, imports) in forms.items():
            out.append(("%s/%s" % (kind, fname), dict(files, **{"main.ddp": head + imports + use}), exp))
    return out


def part3(chk, sc):
    cases = generic_context_programs() + import_form_programs()

    def job(k):
        name, files, exp = cases[k]
        d = os.path.join(sc.path, "gc%d" % k)
        for rel, content in files.items():
            vlib.write_file(os.path.join(d, rel), content)
        exe = os.path.join(d, "out")
        c = vlib.kddp_compile(os.path.join(d, "main.ddp"), exe)
        if c.timed_out:
            return name, files, exp, None
        if c.rc != 0 or not os.path.exists(exe):
            return name, files, exp, ("rejected", (c.err or c.out)[-1500:])
        r = vlib.run_exe(exe)
        return name, files, exp, (None if r.timed_out else ("ran", r.out))
    for name, files, exp, res in vlib.pmap(job, range(len(cases))):
        chk.evaluations += 1
        chk.distinct.add("generic-context:" + name)
        if res is None:
            chk.inconclusive += 1
            continue
        chk.count("generic_context_programs")
        if len(name.split("/")) == 2:       # import_form_programs
            kind, form = name.split("/")
            if exp is None:
                if res[0] != "rejected":
                    chk.violation({"level": "program", "scenario": "import-forms", "cause": "duplicate alias from another module accepted", "forms": form},
                                  files=dict(files, **{"stdout.txt": res[1]}), text="%s: two functions with one alias in scope, no diagnostic; program prints %r" % (name, res[1]))
                elif "bereits" not in res[1] and "schon" not in res[1]:
                    chk.count("import_form_rejections_with_another_message")
            elif res[0] == "rejected" or res[1] != exp:
                chk.violation({"level": "program", "scenario": "import-forms", "cause": "declared alias not callable", "forms": form},
                              files=dict(files, **{"observed.txt": res[1], "expected.txt": exp}), text="%s: expected %r got %s" % (name, exp, res))
            continue
        vis, key, use, _ = name.split("/")
        if res[0] == "rejected":
            first = re.sub(r"/\S*/", "", next((l for l in res[1].split("\n") if "Fehler" in l), ""))[:100]
            chk.violation({"level": "program", "scenario": "generic-context", "cause": "declared alias not callable (program rejected)", "foreign_alias": vis, "key": key, "use": use, "error": re.sub(r"\d+", "N", first)},
                          files=dict(files, **{"kddp_output.txt": res[1]}), text="%s: kddp rejects the program" % name)
        elif res[1] != exp:
            chk.violation({"level": "program", "scenario": "generic-context", "cause": "alias of the calling module replaced inside a generic body", "foreign_alias": vis, "key": key, "use": use},
                          files=dict(files, **{"expected.txt": exp, "stdout.txt": res[1]}), text="%s: expected %r got %r" % (name, exp, res[1]))
    return len(cases)


def run(tier):
    vlib.ensure_build(asan=False)
    chk = Check(PID, tier)
    maxlen, usize, nrand = part1(chk, tier)
    with Scratch("c20") as sc:
        try:
            nprog = part2(chk, tier, sc)
        finally:
            close_probes()
        part3(chk, sc)
    chk.rule = ("history level: every insertion order of at most %d keys out of each of 12 universes of %d keys (exhaustive; prefix structure, primitive placeholders, value vs Referenz, "
                "alias vs target, two placeholders, literals, 2/3/4 look-alike Kombinationen, look-alike definitions, look-alike lists, look-alikes below a shared prefix) + %d seeded random "
                "histories of at most 12 keys with declare / insert-again / copy / call operations (+ random Set/Get/Delete histories on the ordered map itself); after every operation Contains is compared with the model for every key of the universe, "
                "Search(enumerate) and one simulated call per stored alias. Program level: %d programs (3 declaration/import orders per population; single file, modules without and with "
                "look-alike types), each parsed twice (declarations; declarations without the duplicates + one call per alias); 24 compiled and run generic-context programs (an alias of the calling module "
                "used inside generic bodies before and after a nested instantiation from a module with an invisible alias of the same words)." % (maxlen, usize, nrand, nprog))
    chk.extra.update({"exhaustive": True, "exhaustive_scope": "insertion orders of the stated length over the stated key universes"})
    chk.assumptions = [
        "two aliases of one and the same declaration never coincide (the parser checks the aliases of a declaration before inserting any of them; the property speaks of aliases already in scope)",
        "placeholders always carry a valid type (a placeholder without AliasInfo is C03's business)",
        "a plain variable declaration follows every generated declaration/import so that the parser's error recovery cannot swallow the next item",
        "callee identity is only judged when no other alias in scope has the same word pattern or is a prefix of it (overload resolution is C09's business); otherwise only acceptance of the call",
        "at most one module is imported as a whole (others selectively) so that type names never clash in the importer",
    ]
    return chk.finish(min_events=5000)


def replay(path):
    vlib.ensure_build(frontend_only=True)
    v = json.load(open(os.path.join(path, "violation.json")))
    sig = v["signature"]
    if sig.get("level") == "trie":
        args = json.load(open(os.path.join(path, "args.json")))
        b = json.load(open(os.path.join(path, "history.json")))
        _, rc, agg, bad, _, err = run_trie(args)
        hit = agg is None or any(x["law"] == b["law"] and x["cause"] == b["cause"] for x in bad)
        if hit:
            print("VIOLATION property=%s replay=%s" % (PID, path))
        return 1 if hit else 0
    if sig.get("scenario") in ("generic-context", "import-forms"):
        vlib.ensure_build(asan=False)
        with Scratch("c20r") as sc:
            d = sc.sub("r")
            for dp, dn, fns in os.walk(path):
                for fn in fns:
                    if fn.endswith(".ddp"):
                        rel = os.path.relpath(os.path.join(dp, fn), path)
                        vlib.write_file(os.path.join(d, rel), open(os.path.join(dp, fn), encoding="utf-8").read())
            exe = os.path.join(d, "out")
            c = vlib.kddp_compile(os.path.join(d, "main.ddp"), exe)
            expf = os.path.join(path, "expected.txt")
            if "duplicate alias" in sig.get("cause", ""):
                bad = c.rc == 0      # the program must be rejected
            else:
                bad = c.rc != 0 or (os.path.exists(expf) and vlib.run_exe(exe).out != open(expf).read())
        if bad:
            print("VIOLATION property=%s replay=%s" % (PID, path))
        return 1 if bad else 0
    # program level: parse the stored files again and compare with the stored expectation
    with Scratch("c20r") as sc:
        d = sc.sub("r")
        for fn in os.listdir(path):
            if fn.endswith(".ddp"):
                vlib.write_file(os.path.join(d, fn), open(os.path.join(path, fn), encoding="utf-8").read())
        try:
            r = parse(d, os.path.join(d, "main.ddp"), "replay")
        finally:
            close_probes()
    old = json.load(open(os.path.join(path, "result.json")))
    same = bool(r.get("panic")) == bool(old.get("panic")) and sorted((x["code"], x["l1"]) for x in r.get("diags") or []) == sorted((x["code"], x["l1"]) for x in old.get("diags") or [])
    if same:
        print("VIOLATION property=%s replay=%s" % (PID, path))
        return 1
    return 0
