"""C15 A generic call behaves like its monomorphic specialisation.

Differential monitor. One description of a program is printed twice: G uses generic functions (and generic
Kombinationen), M is the same program with every generic function replaced by one textual specialisation per
instantiation (c15_lang / c15_prog). Both go through the real front end (ddpprobe) and the real kddp; they must
agree on acceptance, and - when accepted - on whether kddp produces an executable and on stdout + exit status.
Second family (c15_pairs): verdict pairs for ill-typed bindings of a type parameter and for the identity of
instantiated generic Kombinationen, also for a type definition versus its base (different types) and a type alias versus
its target (one type). Positive controls: upstream's golden generics tests written in the same
description language must print upstream's expected.txt in both renderings (plus one control of our own on type definitions).

Type universe (c15_lang): primitives, lists, pool Kombinationen, instantiated generic Kombinationen, type parameters,
type DEFINITIONS ('d': Meter := Zahl, Begriff := Text, Pegel := Kommazahl, Ort := Punkt; a new type, values by conversion,
shown by an own overload of `zeige` that prints the definition's name) and type ALIASES ('a': Nummer = Zahl, Silbe = Text,
Strecke = Meter; transparent). They are drawn as type arguments by every unit kind; the unit kind `typedef` instantiates ONE
generic function / Kombination with a definition, its base, an alias of the base and an alias of the definition in a random
order from several modules (patterns T-Kombination, T -> T Liste, non-generic overload for the definition next to the generic
one), with the definition declared in the module of the generic, in a third module (`typen`) or in the calling module;
the solo kind `samename` gives two calling modules private definitions of one name."""
import copy
import hashlib
import json
import os
import random
import re
import shutil
import threading
import time

import vlib
from vlib import Check, Scratch, Probe, ProbeDied, log
from checks import c15_gen as gen_mod
from checks import c15_golden, c15_pairs
from checks.c15_lang import TypeErrorInModel

PID = "C15"
LAYOUT_W = [('one', 2), ('two', 3), ('three', 3), ('hidden', 2)]

SIDES = 0
INFRA = re.compile(r'parseListDefs|NewMemoryBufferFromRangeCopy|file truncated|[Ff]ile format not recognized|cannot find -l|libddp\w+\.a: No such file|main\.o: No such file')
_free = []
_probes_lock = threading.Lock()


def _acquire(scratch):
    with _probes_lock:
        if _free:
            return _free.pop()
    return Probe(scratch)


def _release(p):
    with _probes_lock:
        _free.append(p)


def _close_probes():
    with _probes_lock:
        for p in _free:
            try:
                p.close()
            except Exception:
                pass
        del _free[:]


# ------------------------------------------------------------------ running one side

def norm(s):
    s = re.sub(r'\w+_u\d+[a-h]?(_s\d+)?', 'X_uN', s)
    s = re.sub(r'w\d+[a-z]\d+_\d+', 'wN', s)
    s = re.sub(r'/[^\s:\'"]+/', '', s)
    s = re.sub(r'0x[0-9a-f]+', '0x', s)
    s = re.sub(r'_mod_[0-9a-f]{16,}', '_mod_H', s)
    s = re.sub(r'\d+', 'N', s)
    # type names out of diagnostics, so that one defect has one signature
    s = re.sub(r'[(\w-]*\b(Zahl|Zahlen|Kommazahl|Kommazahlen|Text|Buchstabe|Buchstaben|Wahrheitswert|Byte|VektorN|Paar|Kiste|Punkt|Meter|Begriff|Pegel|Ort|Nummer|Silbe|Strecke|Quote|Floskel|Marke)\b[)\w-]*( Listen?)?( Referenz)?', 'TYP', s)
    s = re.sub(r'(TYP[ -]*)+', 'TYP ', s)
    return s


def compile_detail(text):
    if 'symbol multiply defined' in text:
        return 'link: symbol multiply defined'
    m = re.search(r'Unerwarteter Fehler: CompilerError\([^)]*\)\)?: ([^\n]+)', text)
    if m:
        return 'kddp panic: ' + norm(m.group(1))[:160]
    m = re.search(r'ParserError\([^)]*\): ([^\n]+)', text)
    if m:
        return 'parser panic: ' + norm(m.group(1))[:160]
    m = re.search(r'Fehler \((\d+)\)', text)
    if m:
        return 'diagnostic %s' % m.group(1)
    for l in text.split('\n'):
        if l.strip():
            return norm(l.strip())[:160]
    return 'no output'


def run_side(scratch, d, files, O=1):
    """front end (probe), then kddp, then the executable. -> dict(cls, ...) cls: panic|rejected|nocompile|ran|inconclusive"""
    shutil.rmtree(d, ignore_errors=True)
    os.makedirs(d)
    for n, c in files.items():
        vlib.write_file(os.path.join(d, n), c)
    main = os.path.join(d, 'main.ddp')
    res = {'cls': None, 'codes': [], 'msgs': [], 'detail': ''}
    global SIDES
    SIDES += 1
    pr = _acquire(scratch)
    try:
        r = pr.request({"op": "parse", "id": os.path.basename(d), "file": main, "cpu_sec": 30}, wall_s=120)
        _release(pr)
    except ProbeDied as e:
        pr.close()
        if e.marker == 'WALLCLOCK':
            res['cls'] = 'inconclusive'
            return res
        kind, frame = vlib.classify_death(e.stderr_tail)
        res.update(cls='panic', detail='%s @ %s %s' % (norm(kind)[:120], frame.split(' < ')[0], e.marker.split(' ')[0]))
        return res
    if r.get('panic'):
        res.update(cls='panic', detail='%s @ %s' % (norm(str(r.get('panic')))[:120], r.get('frame', '')))
        return res
    errs = [x for x in (r.get('diags') or []) if x['level'] == 2]
    res['codes'] = sorted({x['code'] for x in errs})
    res['msgs'] = [x['msg'] for x in errs][:6]
    res['nerr'] = r.get('errors', 0)
    if r.get('faulty') or r.get('err') or r.get('nil_module'):
        res['cls'] = 'rejected'
        first = errs[0]['msg'] if errs else (r.get('err') or '')
        res['detail'] = 'codes %s: %s' % (','.join(map(str, res['codes'])), norm(first.split('\n')[-1].strip() if first.startswith('Es gab Fehler') and '\n' in first else first)[:140])
        return res
    exe = os.path.join(d, 'main')
    c = vlib.kddp_compile(main, exe, O=O, wall_s=180)
    tries = 0
    while not c.timed_out and c.rc != 0 and INFRA.search(c.out + c.err) and tries < 3:
        # kddp failed outside of any module of the program (e.g. the shared install directory is being rebuilt by a
        # concurrent build.sh and lib/ddp_list_types_defs.ll is momentarily empty): tool failure, not the code's
        tries += 1
        time.sleep(3)
        c = vlib.kddp_compile(main, exe, O=O, wall_s=180)
    if c.timed_out or (c.rc != 0 and INFRA.search(c.out + c.err)):
        res['cls'] = 'inconclusive'
        return res
    if c.rc != 0 or not os.path.exists(exe):
        res.update(cls='nocompile', detail=compile_detail(c.out + c.err), text=(c.out + c.err)[:3000])
        return res
    x = vlib.run_exe(exe, wall_s=30, cpu_s=10)
    if x.timed_out:
        res['cls'] = 'inconclusive'
        return res
    res.update(cls='ran', out=x.out, rc=x.rc, err=x.err[:400])
    return res


def compare(g, m):
    """-> (verdict, kind, detail). verdict: agree | trivial | bothfail | inconclusive | violation"""
    if g['cls'] == 'inconclusive' or m['cls'] == 'inconclusive':
        return 'inconclusive', '', ''
    if g['cls'] == 'panic' or m['cls'] == 'panic':
        if g['cls'] == m['cls']:
            return 'bothfail', 'both crash the front end', g['detail']
        side = 'G' if g['cls'] == 'panic' else 'M'
        return 'violation', '%s crashes the front end, %s does not' % (side, 'M' if side == 'G' else 'G'), (g if side == 'G' else m)['detail']
    if g['cls'] == 'rejected' and m['cls'] == 'rejected':
        return 'trivial', 'both rejected', g['detail']
    if g['cls'] == 'rejected':
        return 'violation', 'G rejected, M accepted', g['detail']
    if m['cls'] == 'rejected':
        return 'violation', 'G accepted, M rejected', m['detail']
    if g['cls'] == 'nocompile' and m['cls'] == 'nocompile':
        return 'bothfail', 'both accepted, kddp fails on both', g['detail']
    if g['cls'] == 'nocompile':
        return 'violation', 'both accepted; kddp fails on G, compiles M', g['detail']
    if m['cls'] == 'nocompile':
        return 'violation', 'both accepted; kddp fails on M, compiles G', m['detail']
    if g['out'] != m['out']:
        return 'violation', 'stdout differs', ''
    if g['rc'] != m['rc']:
        return 'violation', 'exit status differs', 'G %s M %s' % (g['rc'], m['rc'])
    return 'agree', '', ''


# ------------------------------------------------------------------ programs of units

def pick(r, weighted):
    tot = sum(w for _, w in weighted)
    x = r.uniform(0, tot)
    for v, w in weighted:
        x -= w
        if x <= 0:
            return v
    return weighted[-1][0]


class Prog:
    """a batch: configuration + units (units are deterministic in (seed, key, layout))"""

    def __init__(self, seed, pkey, kinds=None, nunits=4):
        r = random.Random('%d/prog/%s' % (seed, pkey))
        self.seed, self.pkey = seed, pkey
        self.layout = pick(r, LAYOUT_W)
        if kinds == ['samename']:
            self.layout = 'three'       # needs two calling modules that both import the declaring module
        self.spec_mode = r.choice(['overload', 'rename'])
        self.mono = r.random() < 0.4
        self.O = r.choice([1, 1, 1, 0, 0, 2])
        if kinds == ['samename']:
            self.mono = True            # the question is about instantiations of the generic Kombination: the reference has none
        # where the pool's type definitions live: in the module of the generic functions or in a third module (own PRNG: the
        # other draws stay what they were)
        self.tymod = random.Random('%d/tymod/%s' % (seed, pkey)).choice(['D', 'D', 'third'])
        self.gen = gen_mod.Gen(seed, self.layout, self.spec_mode, self.mono, self.tymod)
        self.units = []
        self.genfail = 0
        for j in range(nunits):
            kind = kinds[j] if kinds else pick(r, gen_mod.UNIT_KINDS)
            u = self.gen.make_unit('%s:%s.%d' % (kind, pkey, j), j + 1, j)
            if u is None:
                self.genfail += 1
            else:
                u.pos = j
                self.units.append(u)

    def render(self, units=None):
        units = self.units if units is None else units
        g = gen_mod.Gen(self.seed, self.layout, self.spec_mode, self.mono, self.tymod)
        pr = g.assemble([copy.deepcopy(u) for u in units])
        G = pr.render('G')
        M = pr.render('M')
        ninst = sum(len(v) for v in pr.insts.values())
        return G, M, ninst

    def meta(self, units=None):
        units = self.units if units is None else units
        return {'seed': self.seed, 'program': self.pkey, 'layout': self.layout, 'spec_mode': self.spec_mode, 'mono_kombinationen': self.mono, 'O': self.O, 'pool_type_definitions_in': 'module typen' if self.tymod == 'third' else 'declaring module',
                'units': [{'uid': u.uid, 'kind': u.kind, 'features': sorted(gen_mod.unit_features(u))} for u in units]}


def evaluate(sc, name, G, M, O=1):
    g = run_side(sc.path, os.path.join(sc.path, 'w', name, 'G'), G, O)
    m = run_side(sc.path, os.path.join(sc.path, 'w', name, 'M'), M, O)
    v, kind, detail = compare(g, m)
    if v == 'violation' and O == 2 and g['cls'] == 'ran' and m['cls'] == 'ran':
        # run-time behaviour differs at -O 2: does it at -O 1? (the pinned tree has a known -O 2 defect, C08: elided copies of
        # by-value arguments; instantiations are compiled into the calling module and are more exposed to it)
        g1 = run_side(sc.path, os.path.join(sc.path, 'w', name, 'G1'), G, 1)
        m1 = run_side(sc.path, os.path.join(sc.path, 'w', name, 'M1'), M, 1)
        if compare(g1, m1)[0] == 'agree':
            kind += ' only at -O 2'
    return {'verdict': v, 'kind': kind, 'detail': detail, 'g': g, 'm': m}


def evaluate_units(sc, name, prog, units):
    try:
        G, M, ninst = prog.render(units)
    except (TypeErrorInModel, KeyError, ValueError, IndexError) as e:
        return {'verdict': 'genfail', 'kind': '', 'detail': repr(e)[:200]}, None, None
    ev = evaluate(sc, name, G, M, prog.O)
    ev['ninst'] = ninst
    return ev, G, M


SEM_FEATS = ('caller-', 'mutual-recursion', 'recursion', 'operator-overload', 'reference-parameter', 'generic-calls-generic', 'two-type-parameters',
             'private-generic', 'relay', 'nested-list', 'empty-body', 'deep-', 'typedef-', 'alias-')
SIG_FEATS = ('caller-', 'mutual-recursion', 'operator-overload', 'relay', 'nested-list', 'empty-body', 'deep-', 'typedef-', 'alias-')


def sem_features(u):
    return sorted(f for f in gen_mod.unit_features(u) if f.startswith(SEM_FEATS))


def sig_features(u, prog=None):
    """the features that go into a violation signature (the others are listed in meta.json of the replay directory)"""
    fs = [f for f in gen_mod.unit_features(u) if f.startswith(SIG_FEATS) and f != 'typedef-inside-kombination-or-list']     # (coverage only)
    if prog is not None and prog.layout == 'hidden' and u.sites['M']:
        fs.append('caller-does-not-import-declaring-module')
    return sorted(fs)


def minimise(sc, name, prog, unit, target, budget=18):
    """greedy deletion of parts of the unit while the same violation (kind, detail) persists"""
    u = copy.deepcopy(unit)
    n = [0]

    def still(cand):
        if n[0] >= budget:
            return False
        n[0] += 1
        ev, _, _ = evaluate_units(sc, '%s-min%d' % (name, n[0]), prog, [cand])
        return ev['verdict'] == 'violation' and (ev['kind'], ev['detail']) == target

    changed = True
    while changed and n[0] < budget:
        changed = False
        for role in ('I', 'M'):
            for i in range(len(u.helpers[role]) - 1, -1, -1):
                c = copy.deepcopy(u)
                del c.helpers[role][i]
                if still(c):
                    u, changed = c, True
            for i in range(len(u.globals[role]) - 1, -1, -1):
                c = copy.deepcopy(u)
                del c.globals[role][i]
                if still(c):
                    u, changed = c, True
            for i in range(len(u.raws[role]) - 1, -1, -1):
                c = copy.deepcopy(u)
                del c.raws[role][i]
                if still(c):
                    u, changed = c, True
        for role in ('D', 'I', 'M'):
            for i in range(len(u.sites[role]) - 1, -1, -1):
                if sum(len(u.sites[x]) for x in ('D', 'I', 'M')) <= 1:
                    break
                c = copy.deepcopy(u)
                del c.sites[role][i]
                if still(c):
                    u, changed = c, True
        for role in ('D', 'I', 'M'):
            for gi in range(len(u.gens[role]) - 1, -1, -1):
                it = u.gens[role][gi]
                if it[0] != 'func':
                    continue
                c = copy.deepcopy(u)
                fname = it[1].name
                del c.gens[role][gi]
                c.gens[role] = [x for x in c.gens[role] if not (x[0] == 'fwd' and x[1].name == fname)]
                for ro in ('D', 'I', 'M'):
                    c.sites[ro] = [grp for grp in c.sites[ro] if fname not in repr(grp)]
                if sum(len(c.sites[x]) for x in ('D', 'I', 'M')) and still(c):
                    u, changed = c, True
                    continue
                f = it[1]
                for si in range(len(f.body) - 1, -1, -1):
                    if si == len(f.body) - 1 and f.ret is not None:
                        continue
                    c = copy.deepcopy(u)
                    del c.gens[role][gi][1].body[si]
                    # the same FuncDef object may be referenced by a 'fwd' item
                    for x in c.gens[role]:
                        if x[0] == 'fwd' and x[1].name == fname:
                            x[1].body = c.gens[role][gi][1].body
                    if still(c):
                        u, changed = c, True
                        f = u.gens[role][gi][1]
    return u, n[0]


# ------------------------------------------------------------------ run

def run(tier):
    vlib.ensure_build(asan=False)
    chk = Check(PID, tier)
    seed = chk.seed
    nprog, nsolo, npairs = (26, 12, 52) if tier == "quick" else (400, 42, 390)
    if os.environ.get('VERIF_C15_N'):      # development knob only
        nprog, nsolo, npairs = [int(x) for x in os.environ['VERIF_C15_N'].split(',')]
    chk.rule = ("case = one unit (helpers + 1..3 generic functions + call sites in the declaring module, an importing module and a module importing the importer) "
                "printed as G (generic) and M (one textual specialisation per instantiation; aliases overloaded by exact type or renamed; optionally generic "
                "Kombinationen replaced by monomorphic ones); concrete types: primitives, lists, Kombinationen, instantiated generic Kombinationen, type "
                "DEFINITIONS (of Zahl, Text, Kommazahl, of a Kombination; values by conversion, shown by an overload of `zeige` that prints the definition's "
                "name) and type ALIASES (of primitives, of a definition; transparent: an instantiation with an alias is the instantiation with its target), "
                "declared in the module of the generic function, in a third module or in the calling module; "
                "4 units per compiled program, a disagreeing program is re-run unit by unit; plus verdict pairs "
                "(ok must be accepted, bad - differing in one argument/type - must be rejected with a diagnostic). Oracle: G and M agree on front-end acceptance, "
                "on kddp producing an executable, on stdout and exit status. distinct = distinct source texts; non-trivial = not rejected on both sides.")
    chk.assumptions = [
        "generic bodies reference only names declared before the generic function in its module (M places the specialisations at the generic's position)",
        "mutually recursive generic functions: M uses a forward declaration ('wird später definiert') of the specialisations of the second function",
        "a list of lists has no surface syntax: where T Liste is instantiated with a list, M names the element type through a (transparent) type alias",
        "type parameters are not bound to Kombinationen private to the calling module (no textual specialisation in the declaring module exists)",
        "parameter/return type patterns nest a type parameter at most one Kombination deep in batched units (deeper patterns are probed by solo units)",
        "print helper `zeige` is overloaded per concrete type, `zeige2` for Kombinationen with two type parameters (mixed-arity overload sets crash the pinned parser; probed by a verdict pair only)",
        "in the layout where main imports only the middle module, generics of the middle module are instantiated with primitive and list types only",
        "both sides rejected / both sides not compilable are counted (trivial / bothfail) and never reported: they are the business of C02-C04",
        "Byte values are only moved, never computed with",
        "programs are built at -O 0/1/2; a run-time difference at -O 2 is re-checked at -O 1 and, if it vanishes, reported with kind '... only at -O 2'",
        "main imports decl before mitte (in the reverse order the code generator crashes on public functions of mitte whose signature mentions a Kombination of decl: plain-module defect, not judged here)",
        "Kombinationen of the pool are declared with masculine/feminine articles (a neuter type cannot be written as a field type: 'dem Paar x' is refused by the pinned parser)",
        "a disagreement is confirmed by rebuilding the single unit alone; if it does not reproduce it is counted inconclusive (flaky), never reported",
        "type definitions are of primitives (Zahl, Text, Kommazahl) and of one Kombination; no definition of a list type (converting a list to such a type "
        "crashes the pinned code generator in VisitCastExpr - plain-module defect, not judged here); values of a definition are only moved, compared, "
        "converted to the base and back, never computed with; two values of a definition of Text are never concatenated (known finding of C02)",
        "a type alias is the same type as its target: M has ONE specialisation (spelled with the target) and one `zeige` overload for both; only declarations "
        "and conversions at the call sites spell the alias name",
        "a type definition declared in the CALLING module: the declaring module of the generic function cannot name it, so M holds that specialisation in the "
        "calling module (monomorphic Kombinationen likewise); such generic bodies name only their parameters, type parameters and public Kombinationen "
        "(no private helper, no `zeige` on values of the type parameter), so the text means the same in both modules",
        "type definitions and aliases have masculine or feminine names (neuter types cannot be field types, see above); two modules never declare "
        "different private types of the same NAME that are both used as type argument of one generic Kombination (kddp: 'redefinition of type', reported "
        "separately by a dedicated solo unit)",
    ]
    controls_bad = []
    with Scratch("c15") as sc:
        try:
            # ---------------- positive controls
            jobs = []
            for fn in c15_golden.GOLDEN:
                for sm, mono in ((('overload', False), ('rename', True)) if tier == 'quick' else
                                 (('overload', False), ('rename', True), ('overload', True), ('rename', False))):
                    jobs.append((fn, sm, mono))

            def control(job):
                fn, sm, mono = job
                res = fn(sm, mono)
                exp = c15_golden.expected_of(vlib.REPO, res)
                G, M = res[0].render('G'), res[0].render('M')
                ev = evaluate(sc, 'ctl-%s-%s-%d' % (fn.__name__, sm, mono), G, M)
                return job, exp, ev, G, M

            for job, exp, ev, G, M in vlib.pmap(control, jobs):
                fn, sm, mono = job
                chk.count('controls')
                g_ok = ev['g']['cls'] == 'ran' and ev['g']['rc'] == 0 and ev['g']['out'] == exp
                m_ok = ev['m']['cls'] == 'ran' and ev['m']['rc'] == 0 and ev['m']['out'] == exp
                if ev['verdict'] == 'inconclusive':
                    chk.inconclusive += 1
                elif not m_ok:
                    controls_bad.append((fn.__name__, sm, mono, ev['m'].get('detail') or ev['m'].get('out', '')[:200]))
                elif not g_ok:
                    report(chk, {'kind': 'positive control: G does not print upstream expected.txt, M does', 'construct': fn.__name__[2:], 'detail': ev['kind'] + ' ' + ev['detail']},
                           G, M, ev, {'control': fn.__name__, 'spec_mode': sm, 'mono': mono, 'expected': exp})
                else:
                    chk.count('controls_ok')
            log("[C15] t=%.0fs controls done" % (time.time() - chk.t0))
            if controls_bad:
                log("[C15] positive controls failed on the M side (printer/specialiser or build broken):", controls_bad[:3])

            # ---------------- sets of generic operator overloads (c15_ops): which overload is chosen, G vs M
            from checks import c15_ops
            op_pairs = c15_ops.pairs()
            if tier == 'quick':
                rr = random.Random(seed * 7919 + 15)
                rr.shuffle(op_pairs)
                op_pairs = op_pairs[:128]

            def op_job(k):
                name, G, M = op_pairs[k]
                return name, G, M, evaluate(sc, 'ops-%d' % k, G, M)
            for name, G, M, ev in vlib.pmap(op_job, range(len(op_pairs))):
                chk.note_case(('ops', name), nontrivial=ev['verdict'] in ('agree', 'violation'))
                chk.count('operator_overload_set_pairs')
                if ev['verdict'] == 'inconclusive':
                    chk.inconclusive += 1
                elif ev['verdict'] == 'violation':
                    op, shapes, operands = name.split('|')
                    report(chk, {'kind': ev['kind'], 'construct': 'operator-overload-set', 'features': 'operator=%s shapes=%s operands=%s' % (op, shapes, operands), 'detail': ev['detail']},
                           G, M, ev, {'pair': name})
            log("[C15] t=%.0fs operator overload sets done" % (time.time() - chk.t0))

            # ---------------- batches of random units
            progs = [Prog(seed, 'b%d' % i) for i in range(nprog)]
            solo_kinds = gen_mod.SOLO_KINDS
            for i in range(nsolo):
                progs.append(Prog(seed, 's%d' % i, kinds=[solo_kinds[i % len(solo_kinds)]], nunits=1))
            cover = {}

            def do_prog(p):
                if not p.units:
                    return p, None, None, None, []
                ev, G, M = evaluate_units(sc, p.pkey, p, p.units)
                solo = []
                if ev['verdict'] not in ('agree', 'genfail', 'inconclusive') and len(p.units) > 1:
                    for u in p.units:
                        e2, G2, M2 = evaluate_units(sc, '%s-u%d' % (p.pkey, u.uid), p, [u])
                        solo.append((u, e2, G2, M2))
                return p, ev, G, M, solo

            todo = []     # (prog, unit, ev, G, M)
            for p, ev, G, M, solo in vlib.pmap(do_prog, progs):
                chk.count('generator_gave_up', p.genfail)
                if ev is None:
                    continue
                chk.count('programs')
                chk.count('layout_' + p.layout)
                pf = set(f for u in p.units for f in gen_mod.unit_features(u))
                for f in ('typedef-instantiation', 'alias-instantiation', 'typedef-inside-kombination-or-list', 'typedef-declared-in-caller', 'typedef-overload-vs-generic'):
                    if f in pf:
                        chk.count('programs_with_' + f)
                if p.tymod == 'third':
                    chk.count('programs_with_pool_type_definitions_in_third_module')
                if ev['verdict'] == 'genfail':
                    chk.count('generator_model_errors')
                    continue
                results = solo if solo else [(u, ev, G, M) for u in p.units]
                if ev['verdict'] == 'agree':
                    chk.count('programs_agree')
                    chk.count('instantiations_compared', ev.get('ninst', 0))
                    chk.count('output_lines_compared', ev['g']['out'].count('\n'))
                    if p.pkey in ('b0', 'b1'):
                        chk.sample({'program': p.meta(), 'G_decl_or_main_head': (G.get('decl.ddp') or G['main.ddp'])[-900:], 'stdout_both': ev['g']['out'][:300]})
                any_bad = False
                for u, e, Gu, Mu in results:
                    key = hashlib.sha1(json.dumps(Gu if solo else [Gu, u.uid], sort_keys=True).encode()).hexdigest() if Gu else None
                    v = e['verdict']
                    chk.note_case(key, nontrivial=v in ('agree', 'violation', 'bothfail'))
                    chk.count('pairs_' + v)
                    chk.count('kind_' + u.kind)
                    for f in sem_features(u):
                        cover[f] = cover.get(f, 0) + 1
                    if v == 'inconclusive':
                        chk.inconclusive += 1
                    if v == 'bothfail':
                        chk.count('bothfail: ' + e['detail'][:80])
                    if v == 'violation':
                        any_bad = True
                        todo.append((p, u, e, Gu, Mu))
                if solo and not any_bad and ev['verdict'] == 'violation':
                    # the batch disagrees but no unit does alone: interaction between units
                    todo.append((p, None, ev, G, M))

            # ---------------- attribution, confirmation (flaky?), minimisation, reporting
            log("[C15] t=%.0fs batches done, %d disagreeing units to confirm" % (time.time() - chk.t0, len(todo)))
            buckets = {}
            max_min = 6 if tier == 'quick' else 12

            def confirm_and_minimise(item):
                p, u, e, G, M = item
                name = '%s-c%s' % (p.pkey, 'all' if u is None else u.uid)
                e2, G2, M2 = evaluate_units(sc, name, p, p.units if u is None else [u])
                if e2['verdict'] != 'violation' or (e2['kind'], e2['detail']) != (e['kind'], e['detail']):
                    return item, None, e2, 0
                if u is None:
                    return item, None, e2, -1
                prelim = {'kind': e['kind'], 'construct': u.kind, 'features': ','.join(sig_features(u, p)), 'detail': e['detail']}
                if chk.match_known(prelim) is not None:
                    return item, u, e2, 0      # a listed finding: no need to minimise
                b = (e['kind'], e['detail'], u.kind)
                with chk.lock:
                    k = buckets.get(b, 0)
                    buckets[b] = k + 1
                    total = buckets.get('#minimised', 0)
                    if k < 1 and total < max_min:
                        buckets['#minimised'] = total + 1
                if k >= 1 or total >= max_min:
                    return item, u, e2, 0      # one minimisation per (kind, detail, unit kind); bounded per run
                mu, n = minimise(sc, name, p, u, (e['kind'], e['detail']))
                return item, mu, e2, n

            for item, mu, e2, n in vlib.pmap(confirm_and_minimise, todo):
                p, u, e, G, M = item
                if mu is None and n == 0:
                    chk.count('not_reproduced_on_rerun(flaky)')
                    chk.inconclusive += 1
                    log("[C15] not reproduced on re-run:", p.pkey, e['kind'], e['detail'], '->', e2['verdict'], e2.get('kind'), e2.get('detail'),
                        '|', ((e.get('g') or {}).get('text') or (e.get('m') or {}).get('text') or '')[:500].replace('\n', ' / '))
                    continue
                if u is None:
                    sig = {'kind': e['kind'], 'construct': 'interaction of units ' + '+'.join(sorted(x.kind for x in p.units)), 'features': '', 'detail': e['detail']}
                    report(chk, sig, G, M, e, p.meta())
                    continue
                chk.count('minimisation_steps', n)
                if n > 0:
                    ev3, G3, M3 = evaluate_units(sc, '%s-f%d' % (p.pkey, u.uid), p, [mu])
                if n == 0 or ev3['verdict'] != 'violation':
                    mu, ev3, G3, M3 = u, e2, G, M
                sig = {'kind': ev3['kind'], 'construct': mu.kind, 'features': ','.join(sig_features(mu, p)), 'detail': ev3['detail']}
                report(chk, sig, G3, M3, ev3, p.meta([mu]))
            chk.extra['feature_coverage'] = dict(sorted(cover.items()))
            log("[C15] t=%.0fs confirmation and minimisation done" % (time.time() - chk.t0))

            # ---------------- verdict pairs
            pairs = c15_pairs.gen_pairs(seed, npairs)

            def do_pair(c):
                ok = run_side(sc.path, os.path.join(sc.path, 'w', 'p-' + c['name'].replace('#', '-'), 'ok'), c['ok'])
                bad = run_side(sc.path, os.path.join(sc.path, 'w', 'p-' + c['name'].replace('#', '-'), 'bad'), c['bad'])
                return c, ok, bad

            for c, ok, bad in vlib.pmap(do_pair, pairs):
                judge_pair(chk, c, ok, bad)
        finally:
            _close_probes()
    chk.count('program_sides_built_and_run', SIDES)
    if controls_bad:
        chk.finish(min_events=40)
        log("[C15] check void: positive controls failed")
        return 2
    return chk.finish(min_events=40)


def judge_pair(chk, c, ok, bad):
    chk.count('verdict_pairs')
    chk.count('pairfamily_' + c['family'])
    files = {}
    for side in ('ok', 'bad'):
        for n, t in c[side].items():
            files['%s/%s' % (side, n)] = t
    files['case.json'] = json.dumps({'name': c['name'], 'construct': c['construct'], 'expect': c.get('expect')}, indent=1, ensure_ascii=False)
    if 'inconclusive' in (ok['cls'], bad['cls']):
        chk.inconclusive += 1
        return
    key = hashlib.sha1(json.dumps(c['bad'], sort_keys=True).encode()).hexdigest()
    if ok['cls'] == 'rejected':
        chk.note_case(key, nontrivial=False)
        chk.count('pairs_trivial(ok side rejected: generator)')
        log("[C15] pair %s: ok side rejected (%s) - generator mistake, not judged" % (c['name'], ok['detail']))
        return
    chk.note_case(key)
    base = {'construct': norm_construct(c['construct']), 'family': c['family']}
    if ok['cls'] == 'panic':
        chk.violation(dict(base, kind='well-typed program crashes the front end', detail=ok['detail']), files=files, text=c['construct'])
        return
    if ok['cls'] == 'nocompile':
        chk.count('pairs_ok_not_compilable(C02)')
    elif c.get('expect') is not None and (ok['out'] != c['expect'] or ok['rc'] != 0):
        chk.violation(dict(base, kind='well-typed program prints something else', detail='expected %r got %r rc %s' % (c['expect'], ok['out'][:80], ok['rc'])), files=files, text=c['construct'])
    if bad['cls'] == 'panic':
        chk.violation(dict(base, kind='ill-typed program crashes the front end instead of a diagnostic', detail=bad['detail']), files=files, text=c['construct'])
    elif bad['cls'] != 'rejected':
        chk.violation(dict(base, kind='ill-typed program accepted', detail=bad['cls'] + ((' prints %r' % bad['out'][:60]) if bad['cls'] == 'ran' else '')), files=files, text=c['construct'])
    else:
        chk.count('pairs_bad_rejected')
        if c['family'] == 'bind_TT':
            chk.sample({'pair': c['name'], 'construct': c['construct'], 'bad_main': c['bad']['main.ddp'][-300:], 'diagnostics': bad['msgs'][:2]}, limit=8)


def norm_construct(s):
    """type names out of the construct so that one defect has one signature"""
    return re.sub(r'\b(Zahl|Kommazahl|Text|Buchstabe|Wahrheitswert|Byte)\b', 'X', s)     # (the families on type definitions name no concrete type)


def report(chk, sig, G, M, ev, meta):
    files = {}
    for n, t in (G or {}).items():
        files['G/' + n] = t
    for n, t in (M or {}).items():
        files['M/' + n] = t
    files['meta.json'] = json.dumps(meta, indent=1, ensure_ascii=False)
    obs = {}
    for side in ('g', 'm'):
        s = ev.get(side) or {}
        obs[side.upper()] = {k: s.get(k) for k in ('cls', 'codes', 'msgs', 'detail', 'out', 'rc', 'text') if s.get(k) not in (None, '', [])}
    files['observed.json'] = json.dumps(obs, indent=1, ensure_ascii=False)
    text = '%s | %s | G: %s | M: %s' % (sig['kind'], sig.get('detail', ''), (ev.get('g') or {}).get('cls'), (ev.get('m') or {}).get('cls'))
    chk.violation(sig, files=files, text=text)


def replay(path):
    vlib.ensure_build(asan=False)
    rc = 0
    with Scratch("c15r") as sc:
        try:
            def load(sub):
                d = os.path.join(path, sub)
                out = {}
                if os.path.isdir(d):
                    for n in os.listdir(d):
                        out[n] = open(os.path.join(d, n), encoding='utf-8').read()
                return out
            if os.path.isdir(os.path.join(path, 'G')):
                G, M = load('G'), load('M')
                O = 1
                try:
                    O = json.load(open(os.path.join(path, 'meta.json'))).get('O', 1)
                except Exception:
                    pass
                ev = evaluate(sc, 'replay', G, M, O)
                print('replay: %s %s %s' % (ev['verdict'], ev['kind'], ev['detail']))
                for side in ('g', 'm'):
                    s = ev[side]
                    print(' %s: %s %s' % (side.upper(), s['cls'], (s.get('detail') or s.get('out', ''))[:300].replace('\n', '\\n')))
                rc = 1 if ev['verdict'] == 'violation' else 0
            else:
                ok = run_side(sc.path, os.path.join(sc.path, 'w', 'ok'), load('ok'))
                bad = run_side(sc.path, os.path.join(sc.path, 'w', 'bad'), load('bad'))
                print('replay: ok side %s %s; bad side %s %s' % (ok['cls'], ok.get('detail', ''), bad['cls'], bad.get('detail', '')))
                rc = 1 if (bad['cls'] != 'rejected' or ok['cls'] in ('panic', 'rejected')) else 0
        finally:
            _close_probes()
    return rc
