"""C07 Failure is reported faithfully: flag, exit status and source ranges.
Monitor at the diagnostic boundary (parser.Options.ErrorHandler) inside ddpprobe: for every
diagnostic the range law and the real advanced renderer; per module errors>=1 <=> Faulty;
across processes probe verdict <=> kddp exit status, and exit status <=> executable present."""
import json
import os
import random
import shutil

import vlib
from vlib import Check, Scratch, Probe, ProbeDied, log
from checks import mutants

PID = "C07"

TARGETED = [
    # (name, {files}, main) - errors at hostile positions
    ("first_token", {"main.ddp": "ist 1.\n"}),
    ("last_token_no_dot", {"main.ddp": "Die Zahl x ist 1"}),
    ("last_token_no_newline", {"main.ddp": "Die Zahl x ist"}),
    ("empty", {"main.ddp": ""}),
    ("only_newlines", {"main.ddp": "\n\n\n"}),
    ("only_comment_open", {"main.ddp": "[ offen"}),
    ("open_string", {"main.ddp": 'Der Text t ist "abc\nzwei\n'}),
    ("open_char", {"main.ddp": "Der Buchstabe c ist 'a\n"}),
    ("escape_eol", {"main.ddp": 'Der Text t ist "a\\\nb".\n'}),
    ("escape_eof", {"main.ddp": 'Der Text t ist "a\\'}),
    ("bad_escape", {"main.ddp": 'Der Text t ist "a\\qb".\n'}),
    ("long_char", {"main.ddp": "Der Buchstabe c ist 'ab'.\n"}),
    ("capital", {"main.ddp": "Die Zahl x ist 1. die Zahl y ist 2.\n"}),
    ("crlf_error", {"main.ddp": "Die Zahl x ist 1.\r\nDie Zahl y ist z.\r\nDie Zahl w ist 2.\r\n"}),
    ("tabs_multibyte", {"main.ddp": "Wenn wahr, dann:\n\t\tDer Text ä€😀 ist \"ä€😀\" plus 1.\n"}),
    ("multibyte_before", {"main.ddp": 'Der Text t ist "äöü€😀" plus unbekannt.\n'}),
    ("warn_only", {"main.ddp": "Die Funktion f gibt nichts zurück, macht:\n\t...\nUnd kann so benutzt werden:\n\t\"f\"\n"}),
    ("alias_bad_param", {"main.ddp": "Die Funktion f mit dem Parameter a vom Typ Zahl, gibt nichts zurück, macht:\n\t...\nUnd kann so benutzt werden:\n\t\"f <b>\"\n"}),
    ("alias_bad_param_escaped", {"main.ddp": "Die Funktion f mit dem Parameter a vom Typ Zahl, gibt nichts zurück, macht:\n\t...\nUnd kann so benutzt werden:\n\t\"f \\\" <b>\"\n"}),
    ("alias_multiline", {"main.ddp": "Die Funktion f mit dem Parameter a vom Typ Zahl, gibt nichts zurück, macht:\n\t...\nUnd kann so benutzt werden:\n\t\"f\n<b>\nx\"\n"}),
    ("alias_open_param", {"main.ddp": "Die Funktion f mit dem Parameter a vom Typ Zahl, gibt nichts zurück, macht:\n\t...\nUnd kann so benutzt werden:\n\t\"f <a\"\n"}),
    ("alias_neg", {"main.ddp": "Die Funktion f mit dem Parameter a vom Typ Zahl, gibt einen Wahrheitswert zurück, macht:\n\tGib wahr zurück.\nUnd kann so benutzt werden:\n\t\"<a> ist <!nicht\"\n"}),
    ("alias_empty", {"main.ddp": "Die Funktion f gibt nichts zurück, macht:\n\t...\nUnd kann so benutzt werden:\n\t\"\"\n"}),
    ("alias_twice", {"main.ddp": "Die Funktion f gibt nichts zurück, macht:\n\t...\nUnd kann so benutzt werden:\n\t\"foo\" oder\n\t\"foo\"\n"}),
    ("alias_decl_bad", {"main.ddp": "Die Funktion f gibt nichts zurück, macht:\n\t...\nUnd kann so benutzt werden:\n\t\"foo\"\nDer Alias \"bar <x>\" steht für die Funktion f.\n"}),
    ("struct_alias_bad", {"main.ddp": "Wir nennen die Kombination aus\n\tder Zahl x mit Standardwert 1,\neinen Punkt, und erstellen sie so:\n\t\"Punkt <y>\"\n"}),
    ("in_import", {"main.ddp": 'Binde "a" ein.\nDie Zahl z ist 1.\n', "a.ddp": "Die öffentliche Zahl x ist unbekannt.\n"}),
    ("in_import_deep", {"main.ddp": 'Binde "a" ein.\n', "a.ddp": 'Binde "d/b" ein.\n', "d/b.ddp": "\n\n\tDie öffentliche Zahl x ist \"t\".\n"}),
    ("in_import_scan", {"main.ddp": 'Binde "a" ein.\n', "a.ddp": "Die öffentliche Zahl x ist 1. die Zahl y ist 2.\n"}),
    ("in_import_alias", {"main.ddp": 'Binde "a" ein.\n', "a.ddp": "\n\nDie öffentliche Funktion f mit dem Parameter a vom Typ Zahl, gibt nichts zurück, macht:\n\t...\nUnd kann so benutzt werden:\n\t\"f <b\"\n"}),
    ("in_generic", {"main.ddp": "Die generische Funktion g mit dem Parameter a vom Typ T, gibt eine Zahl zurück, macht:\n\tGib a plus 1 zurück.\nUnd kann so benutzt werden:\n\t\"g <a>\"\n\n\nDie Zahl z ist g \"text\".\n"}),
    ("in_generic_import", {"main.ddp": 'Binde "a" ein.\n\nDie Zahl z ist g "text".\n', "a.ddp": "\n\n\n\n\n\nDie öffentliche generische Funktion g mit dem Parameter a vom Typ T, gibt eine Zahl zurück, macht:\n\tGib a plus 1 zurück.\nUnd kann so benutzt werden:\n\t\"g <a>\"\n"}),
    ("in_generic_import_long", {"main.ddp": 'Binde "a" ein.\nDie Zahl z ist g "text".\n', "a.ddp": "\n" * 30 + "Die öffentliche generische Funktion g mit dem Parameter a vom Typ T, gibt eine Zahl zurück, macht:\n\tGib                                                                 a plus 1 zurück.\nUnd kann so benutzt werden:\n\t\"g <a>\"\n"}),
    ("forward_never_defined", {"main.ddp": 'Binde "Duden/Ausgabe" ein.\nDie Funktion verdopple mit dem Parameter n vom Typ Zahl, gibt eine Zahl zurück,\nwird später definiert\nund kann so benutzt werden:\n\t"das Doppelte von <n>"\n\nSchreibe "x" auf eine Zeile.\n'}),
    ("forward_never_defined_used", {"main.ddp": 'Die Funktion verdopple mit dem Parameter n vom Typ Zahl, gibt eine Zahl zurück,\nwird später definiert\nund kann so benutzt werden:\n\t"das Doppelte von <n>"\n\nDie Zahl z ist das Doppelte von 2.\n'}),
    ("forward_never_defined_import", {"main.ddp": 'Binde "a" ein.\nDie Zahl z ist 1.\n', "a.ddp": 'Die öffentliche Funktion verdopple mit dem Parameter n vom Typ Zahl, gibt eine Zahl zurück,\nwird später definiert\nund kann so benutzt werden:\n\t"das Doppelte von <n>"\n'}),
    ("forward_defined_twice", {"main.ddp": 'Die Funktion f gibt eine Zahl zurück,\nwird später definiert\nund kann so benutzt werden:\n\t"ff"\nDie Funktion f macht:\n\tGib 1 zurück.\nDie Funktion f macht:\n\tGib 2 zurück.\n'}),
    ("forward_defined_ok", {"main.ddp": 'Die Funktion f gibt eine Zahl zurück,\nwird später definiert\nund kann so benutzt werden:\n\t"ff"\nDie Funktion f macht:\n\tGib 1 zurück.\nDie Zahl z ist ff.\n'}),
    ("last_error_only_at_eof_validation", {"main.ddp": 'Die Zahl a ist 1.\nDie Funktion g gibt nichts zurück,\nwird später definiert\nund kann so benutzt werden:\n\t"gg"\n'}),
    ("missing_import", {"main.ddp": 'Binde "nix" ein.\n'}),
    ("cycle", {"main.ddp": 'Binde "a" ein.\n', "a.ddp": 'Binde "main" ein.\n'}),
    ("invalid_utf8", {"main.ddp": b"Die Zahl x ist \xff.\n"}),
    ("invalid_utf8_import", {"main.ddp": 'Binde "a" ein.\n', "a.ddp": b"\xc0\xaf"}),
    ("int_overflow", {"main.ddp": "Die Zahl x ist 99999999999999999999.\n"}),
    ("deep_parens", {"main.ddp": "Die Zahl x ist " + "(" * 200 + "1" + ")" * 199 + ".\n"}),
    ("elipsis_warn_and_error", {"main.ddp": "Die Funktion f gibt nichts zurück, macht:\n\t...\nUnd kann so benutzt werden:\n\t\"f\"\nDie Zahl x ist y.\n"}),
]


def judge_parse_result(chk, name, files, r, kind_prefix=""):
    """laws on one probe result; returns failed flag (or None when the worker crashed -> C03's business)"""
    if r.get("panic"):
        chk.count("panics_left_to_C03")
        return None
    fdump = {k: (v if isinstance(v, str) else repr(v)) for k, v in files.items()}
    rf = {"files.json": json.dumps(fdump, indent=1, ensure_ascii=False), "result.json": json.dumps(r, indent=1, ensure_ascii=False)}
    failed = r.get("faulty") or bool(r.get("err")) or r.get("nil_module")
    for d in r.get("diags") or []:
        chk.count("diagnostics_checked")
        site = d.get("site") or ("scanner(alias mode)" if d["msg"].startswith("Fehler im Alias") else "")
        if d.get("range_bad"):
            chk.violation({"kind": "range", "code": d["code"], "site": site, "law": _lawclass(d["range_bad"]), "ctx": d.get("ctx", "")}, files=rf,
                          text="%s: diagnostic %d '%s' %s" % (name, d["code"], d["msg"][:100], d["range_bad"]))
        if d.get("render_bad"):
            chk.violation({"kind": "render", "code": d["code"], "site": site, "ctx": d.get("ctx", "")}, files=rf,
                          text="%s: diagnostic %d: %s" % (name, d["code"], d["render_bad"]))
    if r.get("errors", 0) >= 1 and not failed:
        chk.violation({"kind": "flag", "law": "errors but not faulty", "codes": sorted({d["code"] for d in r["diags"] if d["level"] == 2})}, files=rf,
                      text="%s: %d error diagnostics but module not faulty" % (name, r["errors"]))
    if failed and r.get("errors", 0) == 0 and not r.get("err"):
        chk.violation({"kind": "flag", "law": "faulty without error diagnostic"}, files=rf, text="%s: faulty without error diagnostic" % name)
    return bool(failed)


def _lawclass(s):
    if "not a readable source" in s or "empty file" in s:
        return "file"
    if "after end" in s:
        return "start-after-end"
    if "line" in s and "outside" in s and "column" not in s:
        return "line-outside"
    return "column-outside"


def cli_case(chk, workdir, main, expect_failed, name, files):
    """real kddp: exit status <=> verdict, and exit status <=> executable; a rejected source is compiled in both link modes
    (--module-linken=false takes another path through compiler.Compile)"""
    for link_modules in ((True, False) if expect_failed else (True,)):
        mode = {} if link_modules else {"mode": "--module-linken=false"}
        exe = os.path.join(workdir, "out_exe")
        for p in (exe, exe + ".o"):
            if os.path.exists(p):
                os.unlink(p)
        pr = vlib.kddp_compile(os.path.join(workdir, main), exe, wall_s=120, link_modules=link_modules)
        if pr.timed_out:
            chk.inconclusive += 1
            continue
        chk.count("cli_runs")
        fdump = {k: (v if isinstance(v, str) else repr(v)) for k, v in files.items()}
        rf = {"files.json": json.dumps(fdump, indent=1, ensure_ascii=False), "kddp_stderr.txt": pr.err[-6000:], "kddp_stdout.txt": pr.out[-2000:]}
        exists = os.path.exists(exe)
        if expect_failed and pr.rc == 0:
            chk.violation(dict({"kind": "cli", "law": "front end reported errors but kddp exit 0"}, **mode), files=rf, text=name)
        if expect_failed and "CompilerError(" in (pr.err + pr.out):
            chk.violation(dict({"kind": "cli", "law": "rejected source went on to code generation (reported as an internal compiler error)"}, **mode), files=rf, text=name)
        if pr.rc != 0 and exists:
            chk.violation(dict({"kind": "cli", "law": "kddp exit != 0 but executable left behind"}, **mode), files=rf, text=name)
        if pr.rc == 0 and not exists:
            chk.violation(dict({"kind": "cli", "law": "kddp exit 0 but no executable"}, **mode), files=rf, text=name)
        if pr.rc == 0 and exists and not os.access(exe, os.X_OK):
            chk.violation(dict({"kind": "cli", "law": "kddp exit 0 but output not executable"}, **mode), files=rf, text=name)
        if not link_modules:
            chk.count("cli_runs_module_linken_false")
            continue
        if not expect_failed and pr.rc != 0:
            chk.count("cli_accepted_by_frontend_but_kddp_failed(C02)")
        if pr.rc != 0:
            chk.count("cli_failed")
        else:
            chk.count("cli_succeeded")


def warning_insertions(chk, scratch, corpus):
    """'warnings never fail the compilation' as a metamorphic law: into every function body of every accepted program of the repository
    corpus the statement '...' is inserted (the front end answers with warning 2022 and nothing else). The variant must still be
    accepted: errors == 0, not faulty. Covers bodies of plain, public, generic, operator-overloading and forward-declared functions;
    a generic body is parsed once per instantiation, so its warning travels through the instantiation machinery."""
    import re as _re
    jobs = []
    for dp, dn, fn in os.walk(os.path.join(corpus, "tests", "testdata", "kddp")):
        for f in sorted(fn):
            if not f.endswith(".ddp") or f.startswith("__"):
                continue
            path = os.path.join(dp, f)
            try:
                lines = open(path, encoding="utf-8").read().split("\n")
            except (UnicodeDecodeError, OSError):
                continue
            out, n = [], 0
            for i, l in enumerate(lines):
                out.append(l)
                if _re.search(r"\bmacht:\s*$", l) and i + 1 < len(lines):
                    ind = _re.match(r"\t*", lines[i + 1]).group(0)
                    if len(ind) > len(_re.match(r"\t*", l).group(0)):
                        out.append(ind + "...")
                        n += 1
            if n:
                jobs.append((path, os.path.join(dp, "__warn_" + f), "\n".join(out), n))
    chunks = [jobs[i::vlib.NCPU] for i in range(vlib.NCPU)]

    def work(chunk):
        pr = Probe(scratch)
        outs = []
        for orig, var, text, n in chunk:
            try:
                r0 = pr.request({"op": "parse", "id": "orig", "file": orig, "cpu_sec": 20})
                if r0.get("panic") or r0.get("errors") or r0.get("faulty") or r0.get("err"):
                    outs.append((orig, None, None, n))
                    continue
                open(var, "w").write(text)
                r1 = pr.request({"op": "parse", "id": "warn", "file": var, "cpu_sec": 20})
                os.unlink(var)
                outs.append((orig, text, r1, n))
            except ProbeDied:
                outs.append((orig, None, None, n))
        pr.close()
        return outs

    for outs in vlib.pmap(work, [c for c in chunks if c]):
        for orig, text, r, n in outs:
            if r is None:
                chk.count("warning_insertion_bases_not_accepted")
                continue
            chk.evaluations += 1
            chk.distinct.add("warn:" + os.path.relpath(orig, corpus))
            chk.count("warning_insertions", n)
            warns = [d for d in (r.get("diags") or []) if d["level"] != 2]
            chk.count("warnings_delivered_by_insertions", len(warns))
            if r.get("panic"):
                chk.count("panics_left_to_C03")
                continue
            if r.get("errors") or r.get("faulty") or r.get("err"):
                errs = [d for d in (r.get("diags") or []) if d["level"] == 2]
                chk.violation({"kind": "flag", "law": "a statement that only warns makes the compilation fail", "codes": sorted({d["code"] for d in errs})[:4]},
                              files={"variant.ddp": text, "result.json": json.dumps(r, indent=1, ensure_ascii=False), "base.txt": os.path.relpath(orig, corpus)},
                              text="%s with '...' inserted into %d function bodies: %d error diagnostics (%s)" % (os.path.relpath(orig, corpus), n, len(errs), [d["msg"][:80] for d in errs[:2]]))


def run(tier):
    vlib.ensure_build(asan=False)
    chk = Check(PID, tier)
    seed = chk.seed
    total, ngraphs, ncli = (24000, 110, 160) if tier == "quick" else (300000, 1500, 1500)
    chk.rule = ("sources: mutants of the repository corpus (case i from (corpus, VERIF_SEED, i)), hostile import graphs, a catalogue of targeted error "
                "positions (first/last token, alias strings, imported modules, generic instantiations, CRLF, tabs and multi-byte text). Distinct by "
                "input hash; non-trivial = delivered at least one diagnostic or went through the CLI. Laws per diagnostic: file is a readable source, "
                "1<=line<=#lines, 1<=column<=runes(line)+1, start<=end, real MakeAdvancedHandler renders it; per module: errors>=1 <=> faulty; "
                "metamorphic: inserting the warning-only statement '...' into every function body of an accepted corpus program leaves it accepted; CLI: errors => exit!=0; exit!=0 => no executable; exit 0 => executable; a rejected source never reaches code generation (both link modes).")
    chk.assumptions = ["an error value returned by parser.Parse (e.g. invalid UTF-8) counts as a delivered error diagnostic",
                       "a front-end crash is C03's finding and is not judged here"]
    with Scratch("c07") as sc:
        res = mutants.run_mutants(sc.path, seed, total)
        agg = res["agg"]
        chk.evaluations += agg["cases"]
        chk.count("mutants", agg["cases"])
        chk.count("diagnostics_checked", agg["diags"])
        chk.count("warnings_seen", agg["warnings"])
        chk.count("mutants_rejected", agg["rejected"])
        chk.count("mutants_accepted", agg["accepted"])
        chk.count("diags_in_imported_files", agg["diags_in_imported_files"])
        chk.extra["diagnostic_codes_seen"] = sorted(int(c) for c in agg["by_code"])
        chk.distinct_extra += min(agg["distinct_inputs"], agg["rejected"])
        chk.inconclusive += res["inconclusive"]
        for b in res["bad"]:
            if b["kind"] == "panic":
                chk.count("panics_left_to_C03")
                continue
            inp = os.path.join(sc.path, "replay-%d.ddp" % b["i"])
            mutants.emit_case(res["corpus0"], seed, b["i"], inp)
            data = open(inp, "rb").read() if os.path.exists(inp) else b""
            r = b["result"]
            files = {"input.ddp": data, "result.json": json.dumps(b, indent=1, ensure_ascii=False),
                     "seed_file.txt": os.path.relpath(b["seed_file"], os.path.dirname(res["corpus0"]))}
            if b["kind"] in ("range", "render"):
                for d in r["diags"]:
                    site = d.get("site") or ("scanner(alias mode)" if d["msg"].startswith("Fehler im Alias") else "")
                    if b["kind"] == "range" and d.get("range_bad"):
                        chk.violation({"kind": "range", "code": d["code"], "site": site, "law": _lawclass(d["range_bad"]), "ctx": d.get("ctx", "")}, files=files, text=b["detail"])
                    if b["kind"] == "render" and d.get("render_bad"):
                        chk.violation({"kind": "render", "code": d["code"], "site": site, "ctx": d.get("ctx", "")}, files=files, text=b["detail"])
            elif b["kind"] == "flag":
                if "not faulty" in b["detail"]:
                    chk.violation({"kind": "flag", "law": "errors but not faulty", "codes": sorted({d["code"] for d in r["diags"] if d["level"] == 2})}, files=files, text=b["detail"])
                else:
                    chk.violation({"kind": "flag", "law": "faulty without error diagnostic"}, files=files, text=b["detail"])

        warning_insertions(chk, sc.path, res["corpus0"])

        # targeted positions + import graphs through the serving probe
        rnd = random.Random(seed)
        graphs = [(n, f, "main.ddp") for n, f in TARGETED] + mutants.gen_import_graphs(rnd, ngraphs)
        chunks = [graphs[i::vlib.NCPU] for i in range(vlib.NCPU)]

        def work(chunk):
            pr = Probe(sc.path)
            outs = []
            for name, files, main in chunk:
                gdir = os.path.join(sc.path, "g", name)
                mutants.materialize(gdir, files)
                try:
                    r = pr.request({"op": "parse", "id": name, "file": os.path.join(gdir, main), "cpu_sec": 10})
                except ProbeDied:
                    r = {"panic": "died"}
                outs.append((name, files, main, gdir, r))
            pr.close()
            return outs

        cli_jobs = []
        for outs in vlib.pmap(work, [c for c in chunks if c]):
            for name, files, main, gdir, r in outs:
                chk.evaluations += 1
                failed = judge_parse_result(chk, name, files, r)
                if r.get("diags"):
                    chk.distinct.add("g:" + name)
                if failed is not None:
                    cli_jobs.append((gdir, main, failed, name, files))
                if name in ("in_generic_import", "crlf_error", "alias_bad_param"):
                    chk.sample({"case": name, "files": {k: (v if isinstance(v, str) else repr(v)) for k, v in files.items()},
                                "diagnostics": [{k: d[k] for k in ("code", "level", "file", "l1", "c1", "l2", "c2", "msg", "site") if k in d} for d in (r.get("diags") or [])][:4],
                                "faulty": r.get("faulty")})
        chk.count("targeted_and_graph_cases", len(graphs))

        # CLI equivalence: targeted + graphs (all in quick up to ncli) + a seeded sample of mutants
        rnd.shuffle(cli_jobs)
        cli_jobs = cli_jobs[: ncli // 2]

        def cli_work(job):
            gdir, main, failed, name, files = job
            cli_case(chk, gdir, main, failed, name, files)

        vlib.pmap(cli_work, cli_jobs)

        # mutants through the CLI: each worker owns one corpus copy; probe verdict first, then kddp
        idxs = rnd.sample(range(total), min(total, ncli - len(cli_jobs)))
        wjobs = [idxs[i::vlib.NCPU] for i in range(vlib.NCPU)]

        def mut_cli(args):
            w, ids = args
            if not ids:
                return
            cdir = os.path.join(sc.path, "corpus-w%d" % w)
            pr = Probe(sc.path)
            for i in ids:
                info = mutants.emit_case(res["corpus0"], seed, i, os.path.join(sc.path, "tmp-w%d.ddp" % w))
                if not info:
                    continue
                sd = os.path.dirname(info["seed_file"]).replace(res["corpus0"], cdir, 1)
                cur = os.path.join(sd, "__cur.ddp")
                shutil.copyfile(os.path.join(sc.path, "tmp-w%d.ddp" % w), cur)
                try:
                    r = pr.request({"op": "parse", "id": str(i), "file": cur, "cpu_sec": 20})
                except ProbeDied:
                    os.unlink(cur)
                    continue
                if not r.get("panic"):
                    failed = bool(r.get("faulty") or r.get("err") or r.get("nil_module"))
                    data = open(cur, "rb").read()
                    cli_case(chk, sd, "__cur.ddp", failed, "mutant %d of %s" % (i, os.path.relpath(info["seed_file"], res["corpus0"])),
                             {"__cur.ddp": data.decode("utf-8", "replace")})
                    chk.distinct.add(("cli", i))
                os.unlink(cur)
                for junk in ("out_exe", "out_exe.o"):
                    jp = os.path.join(sd, junk)
                    if os.path.exists(jp):
                        os.unlink(jp)
            pr.close()

        vlib.pmap(mut_cli, list(enumerate(wjobs)))
        p = os.path.join(sc.path, "sample.ddp")
        info = mutants.emit_case(res["corpus0"], seed, 7, p)
        if info:
            chk.sample({"mutant": 7, "seed_file": os.path.relpath(info["seed_file"], res["corpus0"]), "head": open(p, "rb").read()[:240].decode("utf-8", "replace")})
    return chk.finish(min_events=1000)


def replay(path):
    vlib.ensure_build(asan=False)
    chk = Check(PID, "quick")
    with Scratch("c07r") as sc:
        pr = Probe(sc.path)
        d = sc.sub("r")
        if os.path.exists(os.path.join(path, "files.json")):
            files = json.load(open(os.path.join(path, "files.json")))
            mutants.materialize(d, files)
            main = "main.ddp" if "main.ddp" in files else sorted(files)[0]
        else:
            shutil.copyfile(os.path.join(path, "input.ddp"), os.path.join(d, "main.ddp"))
            files, main = {"main.ddp": ""}, "main.ddp"
        r = pr.request({"op": "parse", "id": "replay", "file": os.path.join(d, main), "cpu_sec": 30})
        pr.close()
        failed = judge_parse_result(chk, "replay", files, r)
        if failed is not None:
            cli_case(chk, d, main, failed, "replay", files)
    if chk.violations:
        return 1
    return 0
