"""C09 workload: alias populations built to collide, call sites with every argument form, operator overloads.
Everything is a pure function of the random generator passed in."""
import re

from checks.c09_model import (Alias, Decl, Param, Unit, CONCRETE, LIST_ELEM, is_generic, type_text, type_short, show,
                              resolve, resolve_op, pattern_candidates, match_alias)

WORDS = ["foo", "bar", "baz", "qux", "zap", "lum", "nim", "rok", "tiv", "wub"]
SYMBOLS = ["+", "~"]
PNAMES = ["a", "b", "c"]
FIXED_NAMES = ["Zeig", "Punktaus", "Paaraus", "Punkt", "Paar", "px", "py", "qt", "qz", "T", "R"]


def load_keywords(repo):
    """the keyword table of the tree under test (words that cannot be used as alias words / names)"""
    src = open(repo + "/src/token/token_types.go", encoding="utf-8").read()
    m = re.search(r"var KeywordMap = map\[string\]TokenType\{(.*?)\n\}", src, re.S)
    return {k.lower() for k in re.findall(r'^\s*"([^"]+)"\s*:', m.group(1), re.M)}


def usable_words(repo):
    kw = load_keywords(repo)
    bad = [w for w in WORDS + PNAMES + FIXED_NAMES if w.lower() in kw]
    words = [w for w in WORDS if w.lower() not in kw]
    return words, bad


# ---------------------------------------------------------------- fixed parts of every program

PRELUDE = '''Binde "Duden/Ausgabe" ein.

Wir nennen die öffentliche Kombination aus
	der öffentlichen Zahl px mit Standardwert 0,
	der öffentlichen Zahl py mit Standardwert 0,
einen Punkt, und erstellen sie so:
	"Punktaus <px> <py>"

Wir nennen die öffentliche Kombination aus
	dem öffentlichen Text qt mit Standardwert "",
	der öffentlichen Zahl qz mit Standardwert 0,
ein Paar, und erstellen sie so:
	"Paaraus <qt> <qz>"
''' + "".join('''
Die öffentliche Funktion zeig_%s mit dem Parameter v vom Typ %s, gibt nichts zurück, macht:
%sUnd kann so benutzt werden:
	"Zeig <v>"
''' % (code, tname, "".join("\t%s\n" % l for l in body)) for code, tname, body in [
    ("Z", "Zahl", ["Schreibe v."]),
    ("K", "Kommazahl", ["Schreibe v."]),
    ("B", "Byte", ['Schreibe "b".', "Schreibe v."]),
    ("W", "Wahrheitswert", ["Schreibe v."]),
    ("C", "Buchstabe", ['Schreibe "\'".', "Schreibe v."]),
    ("S", "Text", ['Schreibe "\\"".', "Schreibe v."]),
    ("P", "Punkt", ['Schreibe "P".', "Schreibe (px von v).", 'Schreibe "/".', "Schreibe (py von v)."]),
    ("Q", "Paar", ['Schreibe "Q".', "Schreibe (qt von v).", 'Schreibe "/".', "Schreibe (qz von v)."]),
    ("ZL", "Zahlen Liste", ['Schreibe "L".', "Schreibe v."]),
    ("SL", "Text Liste", ['Schreibe "M".', "Schreibe v."]),
])

# name: (type, value, initialiser)
VARS = {
    "zv1": ("Z", 11, "11"), "zv2": ("Z", 12, "12"),
    "kv1": ("K", 1.5, "1,5"), "kv2": ("K", 2.25, "2,25"),
    "bv1": ("B", 7, "7 als Byte"), "bv2": ("B", 8, "8 als Byte"),
    "wv1": ("W", True, "wahr"), "wv2": ("W", False, "falsch"),
    "cv1": ("C", "q", "'q'"), "cv2": ("C", "r", "'r'"),
    "sv1": ("S", "tx", '"tx"'), "sv2": ("S", "ty", '"ty"'),
    "pv1": ("P", (3, 4), "Punktaus 3 4"), "pv2": ("P", (5, 6), "Punktaus 5 6"),
    "qv1": ("Q", ("qq", 5), 'Paaraus "qq" 5'), "qv2": ("Q", ("qr", 6), 'Paaraus "qr" 6'),
    "lv1": ("ZL", [1, 2, 3], "eine Liste, die aus 1, 2, 3 besteht"), "lv2": ("ZL", [4, 5], "eine Liste, die aus 4, 5 besteht"),
    "tl1": ("SL", ["u", "v"], 'eine Liste, die aus "u", "v" besteht'), "tl2": ("SL", ["w", "x"], 'eine Liste, die aus "w", "x" besteht'),
}
VAR_DECL = {"Z": "Die Zahl", "K": "Die Kommazahl", "B": "Der Byte", "W": "Der Wahrheitswert", "C": "Der Buchstabe", "S": "Der Text",
            "P": "Der Punkt", "Q": "Das Paar", "ZL": "Die Zahlen Liste", "SL": "Die Text Liste"}
VARS_BY_TYPE = {}
for _n, (_t, _v, _i) in VARS.items():
    VARS_BY_TYPE.setdefault(_t, []).append(_n)
PUN_VALUE = 77
FIELD_ART = {"Z": ("der", "Zahl"), "K": ("der", "Kommazahl"), "B": ("dem", "Byte"), "W": ("dem", "Wahrheitswert"),
             "C": ("dem", "Buchstabe"), "S": ("dem", "Text"), "P": ("dem", "Punkt")}
PUB_ADJ = "öffentlichen"


def var_decl_lines(pun_word=None):
    out = ["%s %s ist %s." % (VAR_DECL[t], n, init) for n, (t, v, init) in VARS.items()]
    if pun_word:
        out.append("Die Zahl %s ist %d." % (pun_word, PUN_VALUE))
    return out


# ---------------------------------------------------------------- arguments

def make_arg(rng, t, assignable=False, prefer_var=False, pun_word=None):
    """an argument unit of static type t"""
    names = VARS_BY_TYPE[t]

    def var():
        if pun_word and t == "Z" and rng.random() < 0.3:
            return Unit(pun_word, "Z", "var", True, PUN_VALUE, "var")
        n = rng.choice(names)
        return Unit(n, t, "var", False, VARS[n][1], "var")

    def paren_var():
        n = rng.choice(names)
        return Unit("(%s)" % n, t, "paren", False, VARS[n][1], "paren")

    def paren_index():
        # an element of a list variable: assignable, but only writable in parentheses (several tokens)
        lst = rng.choice(VARS_BY_TYPE["ZL" if t == "Z" else "SL"])
        i = rng.randint(1, len(VARS[lst][1]))
        return Unit("(%s an der Stelle %d)" % (lst, i), t, "paren", False, VARS[lst][1][i - 1], "paren")

    if assignable:
        r = rng.random()
        if t in ("Z", "S") and r < 0.12:
            return paren_index()
        return var() if r < 0.7 else paren_var()
    if prefer_var and rng.random() < 0.6:
        return var()
    if t in ("Z", "S") and rng.random() < 0.06:
        return paren_index()
    forms = ["var", "parenvar"]
    if t in ("Z", "K"):
        forms += ["lit", "lit", "neg", "negvar", "parenexpr", "parenlit"]
    elif t in ("W", "S"):
        forms += ["lit", "lit", "parenexpr"]
    elif t == "C":
        forms += ["lit", "lit"]
    elif t in ("B", "P"):
        forms += ["parenexpr"]
    f = rng.choice(forms)
    if f == "var":
        return var()
    if f == "parenvar":
        return paren_var()
    if t == "Z":
        n = rng.randint(0, 60)
        if f == "lit":
            return Unit(str(n), t, "no", False, n, "lit")
        if f == "neg":
            return Unit("-%d" % n, t, "no", False, -n, "neg")
        if f == "parenlit":
            return Unit("(%d)" % n, t, "no", False, n, "paren")
        v = rng.choice(names)
        if f == "negvar":
            return Unit("-" + v, t, "no", False, -VARS[v][1], "neg")
        return Unit("(%s plus %d)" % (v, n), t, "no", False, VARS[v][1] + n, "paren")
    if t == "K":
        n = rng.randint(0, 40)
        lit, val = "%d,5" % n, n + 0.5
        if f == "lit":
            return Unit(lit, t, "no", False, val, "lit")
        if f == "neg":
            return Unit("-" + lit, t, "no", False, -val, "neg")
        if f == "parenlit":
            return Unit("(%s)" % lit, t, "no", False, val, "paren")
        v = rng.choice(names)
        if f == "negvar":
            return Unit("-" + v, t, "no", False, -VARS[v][1], "neg")
        return Unit("(%s plus %s)" % (v, lit), t, "no", False, VARS[v][1] + val, "paren")
    if t == "W":
        if f == "lit":
            b = rng.random() < 0.5
            return Unit("wahr" if b else "falsch", t, "no", False, b, "lit")
        v = rng.choice(names)
        return Unit("(nicht %s)" % v, t, "no", False, not VARS[v][1], "paren")
    if t == "S":
        if f == "lit":
            s = "s%d" % rng.randint(0, 99)
            return Unit('"%s"' % s, t, "no", False, s, "lit")
        v = rng.choice(names)
        return Unit('(%s verkettet mit "y")' % v, t, "no", False, VARS[v][1] + "y", "paren")
    if t == "C":
        ch = rng.choice("xyzmn")
        return Unit("'%s'" % ch, t, "no", False, ch, "lit")
    if t == "B":
        n = rng.randint(0, 99)
        return Unit("(%d als Byte)" % n, t, "no", False, n, "paren")
    if t == "P":
        x, y = rng.randint(0, 9), rng.randint(0, 9)
        return Unit("(Punktaus %d %d)" % (x, y), t, "no", False, (x, y), "paren")
    raise AssertionError((t, f))


def word_unit(w, pun_word=None):
    if w == pun_word:
        return Unit(w, "Z", "var", True, PUN_VALUE, "var")
    if w == "nicht":
        return Unit(w, None, "no", True, None, "kw")
    return Unit(w, None, "no", True, None, "sym" if w in SYMBOLS else "word")


# ---------------------------------------------------------------- alias populations

class Population:
    def __init__(self):
        self.decls = []
        self.vocab = []
        self.tpool = []
        self.pun = None
        self.kind = "alias"
        self.mode = ""
        self.skipped_word_call = 0

    def aliases(self):
        return [a for d in self.decls for a in d.aliases]


TYPE_WEIGHTS = ["Z", "Z", "K", "K", "S", "S", "B", "W", "C", "P", "P", "Q", "ZL", "SL"]


def _rand_skeleton(rng, vocab, maxlen=5):
    L = rng.randint(1, maxlen)
    k = rng.randint(0, min(3, L - 1))
    slots = set(rng.sample(range(L), k))
    return [None if i in slots else rng.choice(vocab) for i in range(L)]


def _derive(rng, base, vocab):
    sk = list(base)
    op = rng.choice(["same", "same", "same", "prefix", "prefix", "extend", "extend", "move", "word", "slot"])
    if op == "prefix" and len(sk) > 1:
        sk = sk[:rng.randint(1, len(sk) - 1)]
    elif op == "extend":
        for _ in range(rng.randint(1, 2)):
            sk.append(None if rng.random() < 0.4 else rng.choice(vocab))
    elif op == "move" and len(sk) > 1:
        i = rng.randrange(len(sk) - 1)
        sk[i], sk[i + 1] = sk[i + 1], sk[i]
    elif op == "word":
        i = rng.randrange(len(sk))
        sk[i] = rng.choice(vocab)
    elif op == "slot":
        i = rng.randrange(len(sk))
        sk[i] = None
    return sk


def _valid_skeleton(sk):
    return 1 <= len(sk) <= 6 and any(x is not None for x in sk) and sum(x is None for x in sk) <= 3


def _pick_type(rng, tpool, allow_generic, allow_ref, gprob=0.18, rprob=0.25):
    ref = allow_ref and rng.random() < rprob
    if allow_generic and rng.random() < gprob:
        var = "T" if rng.random() < 0.75 else "R"
        if rng.random() < 0.15 and any(t in LIST_ELEM for t in tpool):
            return ("gl", var), ref
        return ("g", var), ref
    return rng.choice(tpool), ref


def gen_population(rng, words):
    pop = Population()
    vocab = rng.sample(words, rng.randint(3, min(6, len(words))))
    if rng.random() < 0.25:
        vocab[-1] = rng.choice(SYMBOLS)
    pop.vocab = vocab
    idwords = [w for w in vocab if w not in SYMBOLS]
    tpool = ["Z"] + rng.sample(TYPE_WEIGHTS, rng.randint(1, 4))
    tpool = sorted(set(tpool), key=CONCRETE.index)
    pop.tpool = tpool
    mode = rng.random()
    n = rng.randint(2, 14)
    wide = mode < 0.15
    if wide:
        n = 14
        pop.mode = "wide"
    use_import = rng.random() < 0.4
    want_pun = rng.random() < 0.15
    skeletons = []
    keys = set()
    base_wide = None
    if wide:
        base_wide = _rand_skeleton(rng, vocab, 3)
        while sum(x is None for x in base_wide) == 0 or not _valid_skeleton(base_wide):
            base_wide = _rand_skeleton(rng, vocab, 3)
        tpool = sorted(set(tpool + rng.sample(CONCRETE, 4)), key=CONCRETE.index)
        pop.tpool = tpool
    for i in range(1, n + 1):
        for attempt in range(6):
            if wide:
                sk = list(base_wide) if rng.random() < 0.7 else _derive(rng, base_wide, vocab)
            elif not skeletons or rng.random() < 0.15:
                sk = _rand_skeleton(rng, vocab)
            else:
                sk = _derive(rng, rng.choice(skeletons), vocab)
            if not _valid_skeleton(sk):
                continue
            d = _make_decl(rng, pop, i, sk, tpool, idwords)
            if d is None:
                continue
            ks = [a.key() for a in d.aliases]
            if len(set(ks)) != len(ks) or any(k in keys for k in ks):
                continue
            keys.update(ks)
            if use_import and rng.random() < 0.35:
                d.module = "m1"
            pop.decls.append(d)
            skeletons.append(sk)
            break
    rng.shuffle(pop.decls)
    if want_pun:
        # a variable that shares its name with an alias word. A name that is by itself a complete alias would be read as that
        # call wherever it is written as an argument (expressions try aliases first), so such words are not used.
        single = {a.toks[0][1] for a in pop.aliases() if len(a.toks) == 1}
        ok = [w for w in idwords if w not in single]
        if ok:
            pop.pun = rng.choice(ok)
    return pop


def _make_decl(rng, pop, i, sk, tpool, idwords):
    k = sum(x is None for x in sk)
    names = PNAMES[:k]
    order = list(names)
    rng.shuffle(order)          # placeholder names in alias order
    decl_order = list(names)
    rng.shuffle(decl_order)     # declaration order, independent of the alias order
    is_struct = rng.random() < 0.12
    if is_struct:
        ftypes = [t for t in tpool if t in FIELD_ART] or ["Z"]
        fields = list(decl_order)
        if len(fields) < 3 and rng.random() < 0.5:
            fields.append(PNAMES[len(fields)])     # a field that no alias mentions: keeps its default
            rng.shuffle(fields)
        params = [Param(nm, rng.choice(ftypes), False) for nm in fields]
        d = Decl("S%d" % i, "struct", params, "S%d" % i)
        for j, p in enumerate(params):
            d.defaults[p.name] = _default_for(p.type, i * 10 + j)
    else:
        allow_generic = k > 0 and rng.random() < 0.45
        params = []
        for nm in decl_order:
            t, ref = _pick_type(rng, tpool, allow_generic, True)
            params.append(Param(nm, t, ref))
        r = rng.random()
        ret = "N" if r < 0.45 else ("Z" if r < 0.8 else "W")
        retval = 1000 + i if ret == "Z" else (rng.random() < 0.5 if ret == "W" else None)
        d = Decl("f%d" % i, "func", params, ret, retval=retval)
    it = iter(order)
    toks = [("w", x) if x is not None else ("p", next(it)) for x in sk]
    if is_struct and k and rng.random() < 0.3:
        # constructors may leave fields out
        pass
    al_toks = [toks]
    if rng.random() < 0.35:
        t2 = _second_alias(rng, toks, pop.vocab, is_struct)
        if t2 is not None and t2 != toks:
            al_toks.append(t2)
    neg_idx = None
    if d.kind == "func" and d.ret == "W" and rng.random() < 0.65:
        neg_idx = rng.randrange(len(al_toks))
    for j, tk in enumerate(al_toks):
        if j == neg_idx:
            pos = rng.randint(0, len(tk))
            marker = "nicht" if rng.random() < 0.5 else rng.choice(idwords)
            d.neg_marker = (len(d.aliases), pos, marker)
            d.aliases.append(Alias(d, tk))
            d.aliases.append(Alias(d, tk[:pos] + [("w", marker)] + tk[pos:], negated=True))
        else:
            d.aliases.append(Alias(d, tk))
    return d


def _second_alias(rng, toks, vocab, is_struct):
    toks = list(toks)
    op = rng.choice(["permute", "permute", "move", "addword", "dropslot" if is_struct else "permute"])
    slots = [i for i, t in enumerate(toks) if t[0] == "p"]
    if op == "permute" and len(slots) >= 2:
        names = [toks[i][1] for i in slots]
        names = names[1:] + names[:1]
        for i, nm in zip(slots, names):
            toks[i] = ("p", nm)
        return toks
    if op == "move" and len(toks) > 1:
        i = rng.randrange(len(toks) - 1)
        toks[i], toks[i + 1] = toks[i + 1], toks[i]
        return toks
    if op == "dropslot" and slots and len(toks) > 1:
        del toks[rng.choice(slots)]
        return toks if any(t[0] == "w" for t in toks) else None
    if len(toks) < 6:
        toks.insert(rng.randint(0, len(toks)), ("w", rng.choice(vocab)))
        return toks
    return None


def _default_for(t, n):
    """(value, source text) of a field default that no generated argument can equal"""
    if t == "Z":
        return (900 + n, str(900 + n))
    if t == "K":
        return (900.5 + n, "%d,5" % (900 + n))
    if t == "B":
        return (100 + n, "%d als Byte" % (100 + n))
    if t == "W":
        return (False, "falsch")
    if t == "C":
        return ("d", "'d'")
    if t == "S":
        return ("dflt%d" % n, '"dflt%d"' % n)
    if t == "P":
        return ((90, n), "Punktaus 90 %d" % n)
    raise AssertionError(t)


# ---------------------------------------------------------------- source text of declarations

def alias_source(d):
    """the quoted alias strings as written in the declaration (negation marker spliced in)"""
    out = []
    skip = set()
    for j, al in enumerate(d.aliases):
        if j in skip:
            continue
        toks = [t[1] if t[0] == "w" else "<%s>" % t[1] for t in al.toks]
        if d.neg_marker and d.neg_marker[0] == j:
            _, pos, marker = d.neg_marker
            toks.insert(pos, "<!%s>" % marker)
            skip.add(j + 1)
        out.append('"%s"' % " ".join(toks))
    return out


def _param_clause(params):
    if not params:
        return ""
    if len(params) == 1:
        p = params[0]
        return " mit dem Parameter %s vom Typ %s," % (p.name, type_text(p.type, p.ref))
    names = ", ".join(p.name for p in params[:-1]) + " und " + params[-1].name
    types = ", ".join(type_text(p.type, p.ref) for p in params[:-1]) + " und " + type_text(params[-1].type, params[-1].ref)
    return " mit den Parametern %s vom Typ %s," % (names, types)


RET_TEXT = {"N": "nichts", "Z": "eine Zahl", "W": "einen Wahrheitswert"}


def decl_source(d, public):
    if d.kind == "struct":
        lines = ["Wir nennen die %sKombination aus" % ("öffentliche " if public else "")]
        for p in d.params:
            art, tn = FIELD_ART[p.type]
            lines.append("\t%s %s%s %s mit Standardwert %s," % (art, PUB_ADJ + " " if public else "", tn, p.name, d.defaults[p.name][1]))
        lines.append("einen %s, und erstellen sie so:" % d.name)
        al = alias_source(d)
        lines += ["\t" + a + (" oder" if i < len(al) - 1 else "") for i, a in enumerate(al)]
        return lines
    head = "Die %s%sFunktion %s%s gibt %s zurück, macht:" % ("öffentliche " if public else "", "generische " if d.generic else "",
                                                             d.name, _param_clause(d.params), RET_TEXT[d.ret])
    lines = [head]
    ps = sorted(d.params, key=lambda p: p.name)
    if not ps:
        lines.append('\tSchreibe "#%s()" auf eine Zeile.' % d.name)
    else:
        for i, p in enumerate(ps):
            lines.append('\tSchreibe "%s%s=".' % ("#%s(" % d.name if i == 0 else ",", p.name))
            lines.append("\tZeig %s." % p.name)
        lines.append('\tSchreibe ")" auf eine Zeile.')
    if d.ret == "Z":
        lines.append("\tGib %d zurück." % d.retval)
    elif d.ret == "W":
        lines.append("\tGib %s zurück." % ("wahr" if d.retval else "falsch"))
    if d.kind == "op":
        lines.append('Und überlädt den "%s" Operator.' % d.op)
    else:
        lines.append("Und kann so benutzt werden:")
        al = alias_source(d)
        lines += ["\t" + a + (" oder" if i < len(al) - 1 else "") for i, a in enumerate(al)]
    return lines


def trace_text(d, binding):
    """what the body of d prints for the binding {param: Unit}"""
    ps = sorted(d.params, key=lambda p: p.name)
    return "#%s(%s)\n" % (d.name, ",".join("%s=%s" % (p.name, show(binding[p.name].type, binding[p.name].value)) for p in ps))


# ---------------------------------------------------------------- call sites

class Site:
    def __init__(self):
        self.id = 0
        self.units = []
        self.accepted = []      # [(decl name, negated, {param: arg text}, expected stdout segment)]
        self.unique = False
        self.ctx = ""
        self.lines = []         # source lines (first one holds the call)
        self.call_off = 0       # rune offset of the call inside lines[0]
        self.line = 0
        self.col = 0
        self.kind = "call"      # entry kind expected in the dump: call | struct | binary:plus ...
        self.feat = {}
        self.exp_shape = ""
        self.cands = {}         # decl name -> description (for diagnostics of violations)
        self.cinfo = {}         # decl name -> {len, generic, only_list_generic, refs}
        self.winfo = {}

    def to_json(self):
        return {"id": self.id, "line": self.line, "col": self.col, "kind": self.kind, "unique": self.unique, "ctx": self.ctx,
                "text": self.lines[0], "accepted": [{"name": a[0], "negated": a[1], "args": a[2], "stdout": a[3], "module": a[4], "generic": a[5]} for a in self.accepted],
                "feat": self.feat, "exp_shape": self.exp_shape, "cands": self.cands, "cinfo": self.cinfo, "winfo": self.winfo}


def alias_info(al):
    gen = [al.decl.param(n).type for n in al.pnames() if is_generic(al.decl.param(n).type)]
    return {"len": len(al), "generic": al.decl.generic, "only_list_generic": bool(gen) and all(t[0] == "gl" for t in gen) and
            all(p.type[0] == "gl" for p in al.decl.params if is_generic(p.type)), "refs": al.refs(), "kind": al.decl.kind}


def _norm_arg(s):
    s = s.strip()
    while s.startswith("(") and s.endswith(")"):
        s = s[1:-1].strip()
    s = s.replace(" ", "")
    return s.lower() if s in ("Wahr", "Falsch") else s


def _could_take_as_argument(aliases, units, i):
    """is there a declaration whose pattern reaches unit i with a placeholder (the units before it matching its pattern)?"""
    for al in aliases:
        if len(al) <= i or al.toks[i][0] != "p":
            continue
        ok = True
        for tok, u in zip(al.toks[:i], units[:i]):
            if tok[0] == "w":
                if not (u.is_word and u.text == tok[1]):
                    ok = False
                    break
            elif u.form == "kw":
                ok = False
                break
        if ok:
            return True
    return False


def gen_sites(rng, pop, nsites):
    aliases = pop.aliases()
    if not aliases:
        return []
    sites, seen = [], set()
    # a word that is by itself a complete alias is, wherever it stands as an argument, read as that call (expressions try aliases
    # first); sites in which some declaration could take such a word as an argument are outside the model's domain
    single = {a.toks[0][1] for a in aliases if len(a.toks) == 1 and a.toks[0][0] == "w"}
    slot_at = set()
    for a in aliases:
        for i, t in enumerate(a.toks):
            if t[0] == "p":
                slot_at.add(i)
    pop.skipped_word_call = 0
    for attempt in range(nsites * 4):
        if len(sites) >= nsites:
            break
        target = rng.choice(aliases)
        env = {}
        units = []
        ok = True
        adversarial = rng.random() < 0.5
        for tok in target.toks:
            if tok[0] == "w":
                units.append(word_unit(tok[1], pop.pun))
                continue
            p = target.decl.param(tok[1])
            t = p.type
            if is_generic(t):
                var = t[1]
                if var not in env:
                    if t[0] == "gl":
                        ch = [LIST_ELEM[x] for x in pop.tpool if x in LIST_ELEM]
                        if not ch:
                            ok = False
                            break
                        env[var] = rng.choice(ch)
                    else:
                        env[var] = rng.choice(pop.tpool)
                ct = env[var]
                if t[0] == "gl":
                    lt = [l for l, e in LIST_ELEM.items() if e == ct]
                    if not lt:
                        ok = False
                        break
                    ct = lt[0]
                t = ct
            units.append(make_arg(rng, t, assignable=p.ref, prefer_var=adversarial, pun_word=pop.pun))
        if not ok:
            continue
        text = " ".join(u.text for u in units)
        if text in seen:
            continue
        seen.add(text)
        if any(u.is_word and u.text in single and i in slot_at and _could_take_as_argument(aliases, units, i) for i, u in enumerate(units)):
            pop.skipped_word_call += 1
            continue
        best_a, ncand = resolve(aliases, units, True)
        best_b, _ = resolve(aliases, units, False)
        if not best_a and not best_b:
            continue
        acc = {}
        for al, b in best_a + best_b:
            acc[id(al)] = (al, b)
        acc = list(acc.values())
        rets = {(al.decl.ret, al.decl.kind) for al, b in acc}
        if len(rets) != 1:
            continue
        unique = len(best_a) == 1 and len(best_b) == 1 and best_a[0][0] is best_b[0][0]
        if any(len(al) != len(units) for al, b in acc):
            continue   # cannot happen (the target consumes every unit); kept as a guard of the generator
        s = Site()
        s.units = units
        s.unique = unique
        ret, kind = next(iter(rets))
        s.kind = "struct" if kind == "struct" else "call"
        _fill_context(rng, s, acc, ret, kind, text)
        # coverage features of this site
        npat = pattern_candidates(aliases, units)
        win = acc[0][0]
        others = [al for al in aliases if al is not win]
        typed = [al for al in others if match_alias(al, units, True) is not None]
        noref = lambda al: tuple(k if k[0] == "w" else k[:2] for k in al.key())
        s.feat = {
            "pattern_candidates": npat, "typed_candidates": ncand, "shorter_typed": sum(1 for al in typed if len(al) < len(win)),
            "gt12": npat > 12, "negated": any(al.negated for al, b in acc), "struct": kind == "struct",
            "imported": win.decl.module != "main", "generic": win.decl.generic, "refs": win.refs(),
            "forms": sorted({u.form for u in units if u.type is not None}),
            "ref_vs_value": any(al.key() != win.key() and noref(al) == noref(win) for al in typed),
            "generic_vs_concrete": any(len(al) == len(win) and al.decl.generic != win.decl.generic for al in typed),
            "same_pattern_other_types": any(al.key() != win.key() and len(al) == len(win) and
                                            [k[0] == "w" and k for k in al.key()] == [k[0] == "w" and k for k in win.key()] for al in others),
            "permuted": len(win.pnames()) >= 2 and win.pnames() != sorted(win.pnames()),
            "decl_order_differs": len(win.pnames()) >= 2 and win.pnames() != [p.name for p in win.decl.params if p.name in win.pnames()],
            "pun": any(u.is_word and u.type is not None for u in units),
        }
        s.exp_shape = win.shape()
        for al in aliases:
            if match_alias(al, units, True) is not None or match_alias(al, units, False) is not None:
                nm = al.decl.name + ("!" if al.negated else "")
                if nm in s.cinfo and s.cinfo[nm]["len"] >= len(al):
                    continue
                s.cands[nm] = al.shape()
                s.cinfo[nm] = alias_info(al)
        s.winfo = alias_info(win)
        sites.append(s)
    return sites


def _fill_context(rng, s, acc, ret, kind, text):
    k = "{K}"   # replaced by the site id when the program is laid out
    first = s.units[0]
    if kind == "struct":
        d = acc[0][0].decl
        s.ctx = "struct-decl"
        s.lines = ["Der %s r%s ist %s." % (d.name, k, text)]
        s.call_off = len("Der %s r%s ist " % (d.name, k))
        for p in d.params:
            s.lines.append("Zeig (%s von r%s)." % (p.name, k))
            s.lines.append('Schreibe "|".')
        s.lines.append('Schreibe "" auf eine Zeile.')
        for al, b in acc:
            dd = al.decl
            out = "".join(show(p.type, b[p.name].value if p.name in b else dd.defaults[p.name][0]) + "|" for p in dd.params) + "\n"
            s.accepted.append((dd.name, False, {n: _norm_arg(u.text) for n, u in b.items()}, out, dd.module, dd.generic))
        return
    if ret == "N":
        s.ctx = "statement"
        t = text
        if first.form == "lit" and first.type == "W":
            t = text[0].upper() + text[1:]   # a keyword at the start of a sentence is capitalised
        s.lines = [t + "."]
        s.call_off = 0
        tail = lambda al: ""
    elif ret == "Z":
        c = rng.randrange(5)
        s.ctx = ["zahl-decl", "zahl-decl-plus-after", "zahl-decl-plus-before", "zeig-arg", "zahl-decl-paren"][c]
        if c == 0:
            s.lines, s.call_off = ["Die Zahl r%s ist %s." % (k, text)], len("Die Zahl r%s ist " % k)
        elif c == 1:
            s.lines, s.call_off = ["Die Zahl r%s ist %s plus 1." % (k, text)], len("Die Zahl r%s ist " % k)
        elif c == 2:
            s.lines, s.call_off = ["Die Zahl r%s ist 1 plus %s." % (k, text)], len("Die Zahl r%s ist 1 plus " % k)
        elif c == 3:
            s.lines, s.call_off = ["Zeig (%s)." % text], len("Zeig (")
        else:
            s.lines, s.call_off = ["Die Zahl r%s ist (%s)." % (k, text)], len("Die Zahl r%s ist (" % k)
        if c != 3:
            s.lines.append("Zeig r%s." % k)
        s.lines.append('Schreibe "" auf eine Zeile.')
        add = 1 if c in (1, 2) else 0
        tail = lambda al: show("Z", al.decl.retval + add) + "\n"
    else:
        c = rng.randrange(2)
        s.ctx = ["bool-decl", "zeig-arg"][c]
        if c == 0:
            s.lines, s.call_off = ["Der Wahrheitswert r%s ist %s." % (k, text), "Zeig r%s." % k], len("Der Wahrheitswert r%s ist " % k)
        else:
            s.lines, s.call_off = ["Zeig (%s)." % text], len("Zeig (")
        s.lines.append('Schreibe "" auf eine Zeile.')
        tail = lambda al: show("W", al.decl.retval != al.negated) + "\n"
    for al, b in acc:
        s.accepted.append((al.decl.name, al.negated, {n: _norm_arg(u.text) for n, u in b.items()}, trace_text(al.decl, b) + tail(al), al.decl.module, al.decl.generic))


# ---------------------------------------------------------------- program layout

def _aux_of_line(d, line):
    """the fixed call a body line of a non-generic declaration makes: (callee, args) or None"""
    m = re.match(r'^\tSchreibe ("(?:[^"\\]|\\.)*") auf eine Zeile\.$', line)
    if m:
        return ("Schreibe_Zeile_Text", {"p1": m.group(1)})
    m = re.match(r'^\tSchreibe ("(?:[^"\\]|\\.)*")\.$', line)
    if m:
        return ("Schreibe_Text", {"p1": m.group(1)})
    m = re.match(r"^\tZeig (\w+)\.$", line)
    if m and d is not None:
        return ("zeig_" + d.param(m.group(1)).type, {"v": m.group(1)})
    return None


def layout(pop, sites):
    """files of one program; fills site.line / site.col / site.id.
    returns (files, aux) - aux: calls with a fixed, population-independent answer in main.ddp (bodies, markers):
    [(line, col, callee, args)]"""
    m1 = [d for d in pop.decls if d.module == "m1"]
    files = {"pre.ddp": PRELUDE}
    aux = []
    if m1:
        lines = ['Binde "Duden/Ausgabe" ein.', 'Binde "pre" ein.', ""]
        for d in m1:
            lines += decl_source(d, True) + [""]
        files["m1.ddp"] = "\n".join(lines) + "\n"
    lines = ['Binde "Duden/Ausgabe" ein.', 'Binde "pre" ein.']
    if m1:
        lines.append('Binde "m1" ein.')
    lines.append("")
    lines += var_decl_lines(pop.pun)
    lines.append("")
    for d in pop.decls:
        if d.module == "main":
            for l in decl_source(d, False):
                lines.append(l)
                if d.kind != "struct" and not d.generic:
                    ax = _aux_of_line(d, l)
                    if ax:
                        aux.append((len(lines), 2, ax[0], ax[1]))
            lines.append("")
    for i, s in enumerate(sites):
        s.id = i + 1
        lines.append('Schreibe "@%d" auf eine Zeile.' % s.id)
        aux.append((len(lines), 1, "Schreibe_Zeile_Text", {"p1": '"@%d"' % s.id}))
        s.line = len(lines) + 1
        sl = [l.replace("{K}", str(s.id)) for l in s.lines]
        s.col = len(s.lines[0][:s.call_off].replace("{K}", str(s.id))) + 1
        s.lines = sl
        lines += sl
    files["main.ddp"] = "\n".join(lines) + "\n"
    return files, aux


# ---------------------------------------------------------------- operator overload populations

OPS = {
    "plus": (2, "%s plus %s"), "minus": (2, "%s minus %s"), "mal": (2, "%s mal %s"), "verkettet mit": (2, "%s verkettet mit %s"),
    "Betrag": (1, "der Betrag von %s"), "unäres minus": (1, "-%s"),
}
OP_TYPES = ["P", "P", "Q", "Z", "K", "S"]


def _op_key(d):
    return (d.op,) + tuple((("G", p.ref) if is_generic(p.type) else (p.type, p.ref)) for p in d.params)


def gen_op_population(rng):
    pop = Population()
    pop.kind = "op"
    ops = rng.sample(sorted(OPS), rng.randint(1, 3))
    tpool = sorted(set(["P"] + rng.sample(OP_TYPES, rng.randint(1, 3))), key=CONCRETE.index)
    pop.tpool = tpool
    pop.vocab = ops
    n = rng.randint(2, 10)
    use_import = rng.random() < 0.3
    keys = set()
    for i in range(1, n + 1):
        for attempt in range(6):
            op = rng.choice(ops)
            ar = OPS[op][0]
            names = rng.sample(PNAMES, ar)      # parameter names unrelated to the operand order
            allow_generic = rng.random() < 0.35
            params = []
            for nm in names:
                t, ref = _pick_type(rng, tpool, allow_generic, True, gprob=0.5, rprob=0.3)
                if is_generic(t) and t[0] == "gl":
                    t = ("g", t[1])
                params.append(Param(nm, t, ref))
            d = Decl("o%d" % i, "op", params, "Z", retval=2000 + i, op=op)
            kk = _op_key(d)
            if kk in keys:
                continue
            keys.add(kk)
            if use_import and rng.random() < 0.35:
                d.module = "m1"
            pop.decls.append(d)
            break
    rng.shuffle(pop.decls)
    return pop


def _builtin(op, types, vals):
    """(result type, value) of the built-in meaning, None when the operands are outside the fallback domain used here"""
    num = all(t in ("Z", "K") for t in types)
    if op in ("plus", "minus", "mal") and num:
        a, b = vals
        r = a + b if op == "plus" else (a - b if op == "minus" else a * b)
        return ("K" if "K" in types else "Z", float(r) if "K" in types else r)
    if op == "verkettet mit" and types == ["S", "S"]:
        return ("S", vals[0] + vals[1])
    if op == "Betrag" and num:
        return (types[0], abs(vals[0]))
    if op == "unäres minus" and num:
        return (types[0], -vals[0])
    return None


def _operand(rng, t, assignable):
    names = VARS_BY_TYPE[t]
    n = rng.choice(names)
    r = rng.random()
    if assignable:
        if r < 0.7:
            return Unit(n, t, "var", False, VARS[n][1], "var")
        return Unit("(%s)" % n, t, "paren", False, VARS[n][1], "paren")
    if r < 0.5:
        return Unit(n, t, "var", False, VARS[n][1], "var")
    if r < 0.7:
        return Unit("(%s)" % n, t, "paren", False, VARS[n][1], "paren")
    if t == "Z":
        v = rng.randint(0, 60)
        return Unit(str(v), t, "no", False, v, "lit")
    if t == "K":
        v = rng.randint(0, 40)
        return Unit("%d,5" % v, t, "no", False, v + 0.5, "lit")
    if t == "S":
        v = "s%d" % rng.randint(0, 99)
        return Unit('"%s"' % v, t, "no", False, v, "lit")
    if t == "P":
        x, y = rng.randint(0, 9), rng.randint(0, 9)
        return Unit("(Punktaus %d %d)" % (x, y), t, "no", False, (x, y), "paren")
    return Unit(n, t, "var", False, VARS[n][1], "var")


def gen_op_sites(rng, pop, nsites):
    sites, seen = [], set()
    ops = pop.vocab
    skipped = 0
    for attempt in range(nsites * 4):
        if len(sites) >= nsites:
            break
        op = rng.choice(ops)
        ar, fmt = OPS[op]
        cands = [d for d in pop.decls if d.op == op]
        if cands and rng.random() < 0.8:
            d = rng.choice(cands)
            env, operands = {}, []
            for p in d.params:
                t = p.type
                if is_generic(t):
                    if t[1] not in env:
                        env[t[1]] = rng.choice(pop.tpool)
                    t = env[t[1]]
                operands.append(_operand(rng, t, p.ref if rng.random() < 0.8 else False))
        else:
            if op == "verkettet mit":
                ts = ["S", "S"]
            else:
                ts = [rng.choice(["Z", "K"]) for _ in range(ar)]
            operands = [_operand(rng, t, False) for t in ts]
        text = fmt % tuple(u.text for u in operands)
        if text in seen:
            continue
        seen.add(text)
        best_a, ncand, _ = resolve_op(pop.decls, op, operands, True)
        best_b, _, _ = resolve_op(pop.decls, op, operands, False)
        has_struct = any(u.type in ("P", "Q") for u in operands)
        if not has_struct and any(d.generic for d in best_a + best_b):
            skipped += 1   # generic overloads are documented to apply to Kombination operands only: not judged
            continue
        if not has_struct:
            # a generic overload that merely *matches* primitive operands is outside the judged domain as well
            ga, _, _ = resolve_op([d for d in pop.decls if d.generic], op, operands, True)
            if ga:
                skipped += 1
                continue
        acc = {}
        for d in best_a + best_b:
            acc[d.name] = d
        acc = list(acc.values())
        bi = _builtin(op, [u.type for u in operands], [u.value for u in operands])
        builtin_possible = (not best_a or not best_b) and bi is not None   # under some reading no overload applies
        if not acc and bi is None:
            continue
        s = Site()
        s.units = operands
        s.kind = ("binary:" if ar == 2 else "unary:") + op
        s.ctx = "zeig-arg"
        s.lines = ["Zeig (%s)." % text, 'Schreibe "" auf eine Zeile.']
        s.call_off = len("Zeig (")
        for d in acc:
            b = {p.name: u for p, u in zip(d.params, operands)}
            s.accepted.append((d.name, False, {n: _norm_arg(u.text) for n, u in b.items()}, trace_text(d, b) + show("Z", d.retval) + "\n", d.module, d.generic))
        if builtin_possible:
            s.accepted.append(("<builtin>", False, {}, show(bi[0], bi[1]) + "\n", "", False))
        if acc:
            s.unique = len(best_a) == 1 and len(best_b) == 1 and best_a[0] is best_b[0]
            s.exp_shape = "%s(%s)" % (op, ",".join(type_short(p.type, p.ref) for p in acc[0].params))
        else:
            s.unique = True
            s.exp_shape = "%s builtin(%s)" % (op, ",".join(u.type for u in operands))
        s.feat = {"typed_candidates": ncand, "builtin": not acc, "generic": bool(acc) and acc[0].generic, "refs": bool(acc) and sum(p.ref for p in acc[0].params),
                  "imported": bool(acc) and acc[0].module != "main", "forms": sorted({u.form for u in operands}), "op": op,
                  "overloads_for_op": sum(1 for d in pop.decls if d.op == op)}
        opinfo = lambda d: {"len": len(d.params), "generic": d.generic, "only_list_generic": False, "refs": sum(p.ref for p in d.params), "kind": "op"}
        for d in pop.decls:
            if d.op == op:
                s.cands[d.name] = "%s(%s)" % (op, ",".join(type_short(p.type, p.ref) for p in d.params))
                if any(d is x for x in resolve_op(pop.decls, op, operands, True)[2] + resolve_op(pop.decls, op, operands, False)[2]):
                    s.cinfo[d.name] = opinfo(d)
        s.winfo = opinfo(acc[0]) if acc else {"len": ar, "generic": False, "refs": 0}
        sites.append(s)
    return sites, skipped
