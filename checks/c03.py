"""C03 The frontend is total: no input crashes or hangs it.
Monitor: the real scanner/parser/resolver/typechecker run in sacrificial worker processes on
mutated sources and hostile import graphs; oracle = the worker returns normally (no panic
escaping parser.Parse, no Go fatal error, CPU and RSS budget kept)."""
import json
import os
import random
import subprocess

import vlib
from vlib import Check, Scratch, Probe, ProbeDied, log
from checks import mutants

PID = "C03"


def judge_mutants(chk, res, seed, scratch):
    agg = res["agg"]
    for b in res["bad"]:
        if b["kind"] != "panic":
            continue
        sig = {"kind": "panic", "frame": b.get("frame", ""), "panic": b["detail"][:160]}
        inp = os.path.join(scratch, "replay-%d.ddp" % b["i"])
        mutants.emit_case(res["corpus0"], seed, b["i"], inp)
        data = open(inp, "rb").read() if os.path.exists(inp) else b""
        chk.violation(sig, files={"input.ddp": data, "result.json": json.dumps(b, indent=1, ensure_ascii=False),
                                  "seed_file.txt": os.path.relpath(b["seed_file"], os.path.dirname(res["corpus0"]))},
                      text="panic escaping parser.Parse: " + b["detail"])
    for d in res["deaths"]:
        # reproduce alone in a fresh worker
        p = subprocess.run([vlib.PROBE, "mutate", "--corpus", res["corpus0"], "--seed", str(seed), "--from", str(d["i"]), "--to", str(d["i"] + 1)],
                           stdout=subprocess.PIPE, stderr=subprocess.PIPE, env=vlib.base_env())
        if b"AGG " in p.stdout:
            chk.inconclusive += 1
            chk.count("deaths_not_reproduced")
            continue
        sig = {"kind": d["kind"], "frame": d["frame"]}
        inp = os.path.join(scratch, "replay-%d.ddp" % d["i"])
        mutants.emit_case(res["corpus0"], seed, d["i"], inp)
        data = open(inp, "rb").read() if os.path.exists(inp) else b""
        chk.violation(sig, files={"input.ddp": data, "stderr.txt": d["stderr"], "info.json": json.dumps({k: v for k, v in d.items() if k != "stderr"}, indent=1)},
                      text="worker died: %s (%s)" % (d["kind"], d["marker"]))
    chk.evaluations += agg["cases"]
    chk.count("mutants", agg["cases"])
    chk.count("mutants_valid_utf8", agg["valid_utf8"])
    chk.count("mutants_accepted", agg["accepted"])
    chk.count("mutants_rejected", agg["rejected"])
    chk.count("diagnostics_delivered", agg["diags"])
    chk.count("worker_deaths", len(res["deaths"]))
    chk.extra["diagnostic_codes_seen"] = len(agg["by_code"])
    chk.extra["max_cpu_ms_per_case"] = agg["max_cpu_ms"]
    chk.extra["max_rss_kb"] = agg["max_rss_kb"]
    chk.inconclusive += res["inconclusive"]
    return agg


def run_graphs(chk, scratch, rnd, n):
    graphs = mutants.gen_import_graphs(rnd, n)
    chunks = [graphs[i::vlib.NCPU] for i in range(vlib.NCPU)]

    def work(chunk):
        pr = Probe(scratch)
        outs = []
        for name, files, main in chunk:
            gdir = os.path.join(scratch, "g", name)
            mutants.materialize(gdir, files)
            try:
                r = pr.request({"op": "parse", "id": name, "file": os.path.join(gdir, main), "cpu_sec": 10})
                outs.append((name, files, r, None))
            except ProbeDied as e:
                outs.append((name, files, None, e))
        pr.close()
        return outs

    ndiag = 0
    for outs in vlib.pmap(work, [c for c in chunks if c]):
        for name, files, r, died in outs:
            chk.evaluations += 1
            chk.distinct.add("graph:" + name)
            fdump = {k: (v if isinstance(v, str) else repr(v)) for k, v in files.items()}
            if died is not None:
                kind, frame = vlib.classify_death(died.stderr_tail)
                if died.marker:
                    kind = died.marker.split()[0]
                if kind == "WALLCLOCK":
                    chk.inconclusive += 1
                    continue
                chk.violation({"kind": kind, "frame": frame, "graph": name if not name.startswith("rand") else "random"},
                              files={"graph.json": json.dumps(fdump, indent=1, ensure_ascii=False), "stderr.txt": died.stderr_tail},
                              text="worker died on import graph " + name)
                continue
            ndiag += len(r.get("diags") or [])
            if r.get("panic"):
                chk.violation({"kind": "panic", "frame": r.get("frame", ""), "panic": r["panic"][:160]},
                              files={"graph.json": json.dumps(fdump, indent=1, ensure_ascii=False), "result.json": json.dumps(r, indent=1, ensure_ascii=False)},
                              text="panic on import graph " + name)
            if len(chk.samples) < 6 and name in ("cycle3", "selective_private", "rand40"):
                chk.sample({"import_graph": name, "files": fdump, "errors": r.get("errors"), "faulty": r.get("faulty"),
                            "first_diag": (r.get("diags") or [{}])[0].get("msg")})
    chk.count("import_graphs", len(graphs))
    chk.count("import_graph_diagnostics", ndiag)


def run_illformed(chk, scratch, rnd, tier):
    """statically ill-formed but syntactically well-formed programs: C04's catalogue of single static faults (undeclared names,
    redeclarations, operand types, Konstante mutation, loop control outside loops, missing returns, non-public names of imports,
    wrong articles) and their well-formed twins, each at the sites {top, if, loop, function, nested}. Token-level mutants rarely
    reach the resolver/typechecker branches behind such faults; here only totality is judged (C04 judges the verdict)."""
    from checks import c04
    cases = []
    stm = c04.faults(rnd, 0)
    opf = c04.operand_faults()
    top = c04.toplevel_faults()
    sites = c04.SITES if tier == "thorough" else None
    n = 0
    for cls, bad, good in list(stm) + list(opf):
        for site in (sites or [rnd.choice(c04.SITES)]):
            if cls in ("break outside loop", "continue outside loop") and site in ("loop", "nested"):
                continue
            for which, tail in (("fault", bad), ("twin", good)):
                n += 1
                cases.append(("%s|%s|%s" % (cls, site, which), c04.OPERAND_PRELUDE + c04.place(tail, site).replace("%N%", "_%d" % n), {}))
    for cls, bad, good, files in top:
        for which, tail in (("fault", bad), ("twin", good)):
            n += 1
            suf = "_%d" % n
            cases.append(("%s|top|%s" % (cls, which), c04.OPERAND_PRELUDE + tail.replace("%N%", suf), {fn.replace("%N%", suf): c for fn, c in files.items()}))
    chunks = [cases[i::vlib.NCPU] for i in range(vlib.NCPU)]

    def work(arg):
        wi, chunk = arg
        pr = Probe(scratch)
        d = os.path.join(scratch, "ill%d" % wi)
        os.makedirs(d, exist_ok=True)
        outs = []
        for k, (name, src, files) in enumerate(chunk):
            p = os.path.join(d, "c%d.ddp" % k)
            open(p, "w").write(src)
            for fn, content in files.items():
                open(os.path.join(d, fn), "w").write(content)
            try:
                r = pr.request({"op": "parse", "id": name, "file": p, "cpu_sec": 10})
                outs.append((name, src, files, r, None))
            except ProbeDied as e:
                outs.append((name, src, files, None, e))
        pr.close()
        return outs

    rejected = 0
    for outs in vlib.pmap(work, [(i, c) for i, c in enumerate(chunks) if c]):
        for name, src, files, r, died in outs:
            chk.evaluations += 1
            chk.distinct.add("ill:" + name)
            cls = name.split("|")[0]
            fl = dict(files, **{"input.ddp": src})
            if died is not None:
                kind, frame = vlib.classify_death(died.stderr_tail)
                if died.marker:
                    kind = died.marker.split()[0]
                if kind == "WALLCLOCK":
                    chk.inconclusive += 1
                    continue
                fl["stderr.txt"] = died.stderr_tail
                chk.violation({"kind": kind, "frame": frame, "illformed": cls}, files=fl, text="worker died on a statically ill-formed program: " + name)
                continue
            if r.get("panic"):
                fl["result.json"] = json.dumps(r, indent=1, ensure_ascii=False)
                chk.violation({"kind": "panic", "frame": r.get("frame", ""), "panic": r["panic"][:160], "illformed": cls}, files=fl,
                              text="panic on a statically ill-formed program: " + name)
                continue
            if r.get("errors"):
                rejected += 1
    chk.count("illformed_programs", len(cases))
    chk.count("illformed_programs_rejected_with_diagnostics", rejected)


def run_combos(chk, scratch):
    """grammar-combinatorial hostile programs (checks/c03_combos.py): well-formed constructs in places where the front end expects
    another kind of construct; a fixed list, every case in its own directory; only totality is judged"""
    from checks import c03_combos
    cases = c03_combos.cases()
    chunks = [cases[i::vlib.NCPU] for i in range(vlib.NCPU)]

    def work(arg):
        wi, chunk = arg
        pr = Probe(scratch)
        outs = []
        for k, (name, files, main) in enumerate(chunk):
            d = os.path.join(scratch, "combo%d_%d" % (wi, k))
            mutants.materialize(d, files)
            try:
                r = pr.request({"op": "parse", "id": name, "file": os.path.join(d, main), "cpu_sec": 10})
                outs.append((name, files, r, None))
            except ProbeDied as e:
                outs.append((name, files, None, e))
        pr.close()
        return outs

    rejected = 0
    for outs in vlib.pmap(work, [(i, c) for i, c in enumerate(chunks) if c]):
        for name, files, r, died in outs:
            chk.evaluations += 1
            chk.distinct.add("combo:" + name)
            fam = ":".join(name.split(":")[:2])
            fl = dict(files)
            if died is not None:
                kind, frame = vlib.classify_death(died.stderr_tail)
                if died.marker:
                    kind = died.marker.split()[0]
                if kind == "WALLCLOCK":
                    chk.inconclusive += 1
                    continue
                fl["stderr.txt"] = died.stderr_tail
                fl["graph.json"] = json.dumps(files, indent=1, ensure_ascii=False)
                chk.violation({"kind": kind, "frame": frame, "combo": fam}, files=fl, text="worker died on combination " + name)
                continue
            if r.get("panic"):
                fl["result.json"] = json.dumps(r, indent=1, ensure_ascii=False)
                fl["graph.json"] = json.dumps(files, indent=1, ensure_ascii=False)
                chk.violation({"kind": "panic", "frame": r.get("frame", ""), "panic": r["panic"][:160], "combo": fam}, files=fl, text="panic on combination " + name)
                continue
            if r.get("errors"):
                rejected += 1
    chk.count("combination_programs", len(cases))
    chk.count("combination_programs_rejected_with_diagnostics", rejected)


def run(tier):
    vlib.ensure_build(frontend_only=True)
    chk = Check(PID, tier)
    seed = chk.seed
    total, ngraphs = (24000, 150) if tier == "quick" else (600000, 2000)
    chk.rule = ("mutants: case i is derived from (repository .ddp corpus, VERIF_SEED, i) by 1-3 mutators (token/line/byte/structure level, import "
                "statements, CRLF), <= 8 KiB; import graphs: fixed hostile catalogue + 48 generic-instantiation graphs (polymorphic recursion over 1-4 types, 4 module layouts) + seeded random graphs of 2-7 modules; statically ill-formed programs: every entry of C04's single-fault catalogue and its well-formed twin at a site (thorough: at every site); grammar-combinatorial programs (alias declarations for every kind of name, operator overloads of every operator with 0-4 parameters, variables named like types/functions, every statement kind as the single statement of every one-line if/loop form, selective imports of names whose types are not imported). A case is distinct by the "
                "hash of its bytes (mutants) or its graph id; every case is non-trivial (it is parsed by the real front end). Oracle: worker returns "
                "without panic/fatal error; CPU <= 5 s + 2 ms/byte; RSS <= 256 MiB + 64 KiB/byte; Go max stack 256 MiB.")
    chk.assumptions = ["inputs are at most 8 KiB; import graphs at most 7 modules", "a worker death that does not reproduce alone in a fresh worker is counted inconclusive"]
    with Scratch("c03") as sc:
        res = mutants.run_mutants(sc.path, seed, total)
        agg = judge_mutants(chk, res, seed, sc.path)
        for i in range(agg["distinct_inputs"]):
            pass
        chk.distinct_extra += agg["distinct_inputs"]
        # samples of real mutants
        for i in (0, 1, 2):
            p = os.path.join(sc.path, "sample-%d.ddp" % i)
            info = mutants.emit_case(res["corpus0"], seed, i, p)
            if info:
                chk.sample({"mutant": i, "seed_file": os.path.relpath(info["seed_file"], res["corpus0"]), "bytes": info["bytes"],
                            "head": open(p, "rb").read()[:200].decode("utf-8", "replace")})
        run_graphs(chk, sc.path, random.Random(seed), ngraphs)
        run_illformed(chk, sc.path, random.Random("%d/C03/ill" % seed), tier)
        run_combos(chk, sc.path)
    return chk.finish(min_events=1000)


def replay(path):
    vlib.ensure_build(frontend_only=True)
    with Scratch("c03r") as sc:
        pr = Probe(sc.path)
        inp = os.path.join(path, "input.ddp")
        if os.path.exists(inp):
            d = sc.sub("r")
            t = os.path.join(d, "input.ddp")
            for fn in os.listdir(path):    # modules imported by an ill-formed catalogue program lie next to it
                if fn.endswith(".ddp"):
                    open(os.path.join(d, fn), "wb").write(open(os.path.join(path, fn), "rb").read())
            try:
                r = pr.request({"op": "parse", "id": "replay", "file": t, "cpu_sec": 30})
                print(json.dumps({k: r.get(k) for k in ("panic", "frame", "errors", "faulty")}, ensure_ascii=False))
                bad = bool(r.get("panic"))
            except ProbeDied as e:
                print("worker died:", e.marker, vlib.classify_death(e.stderr_tail))
                bad = True
            pr.close()
            if bad:
                print("VIOLATION property=%s replay=%s" % (PID, path))
                return 1
            return 0
        gj = os.path.join(path, "graph.json")
        if os.path.exists(gj):
            files = json.load(open(gj))
            d = sc.sub("g")
            mutants.materialize(d, files)
            main = "main.ddp" if "main.ddp" in files else "m0.ddp"
            try:
                r = pr.request({"op": "parse", "id": "replay", "file": os.path.join(d, main), "cpu_sec": 30})
                bad = bool(r.get("panic"))
            except ProbeDied:
                bad = True
            pr.close()
            if bad:
                print("VIOLATION property=%s replay=%s" % (PID, path))
                return 1
    return 0
