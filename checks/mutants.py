"""Shared workload of C03 and C07: the real front end on mutated sources (ddpprobe mutate)
and on hostile import graphs (ddpprobe serve). Each worker process has its own corpus copy."""
import json
import os
import shutil
import subprocess

import vlib
from vlib import PROBE, base_env, log


def run_mutants(scratch, seed, total, nworkers=vlib.NCPU, max_bytes=8192):
    """returns dict(agg=merged aggregate, bad=[bad case dicts], deaths=[...], inconclusive=n)"""
    corp0 = os.path.join(scratch, "corpus0")
    n = vlib.copy_corpus(corp0)
    per = (total + nworkers - 1) // nworkers
    jobs = []
    for w in range(nworkers):
        lo, hi = w * per, min(total, (w + 1) * per)
        if lo >= hi:
            break
        cdir = os.path.join(scratch, "corpus-w%d" % w)
        shutil.copytree(corp0, cdir)
        jobs.append((w, cdir, lo, hi))

    def work(job):
        w, cdir, lo, hi = job
        bad, deaths, aggs, inconcl = [], [], [], 0
        cur = lo
        while cur < hi:
            to = min(hi, cur + 4000)        # one worker process per <= 4000 cases: a generous wall-clock watchdog per chunk, independent of the tier
            errp = os.path.join(scratch, "mut-w%d.err" % w)
            try:
                with open(errp, "wb") as ef:
                    p = subprocess.run([PROBE, "mutate", "--corpus", cdir, "--seed", str(seed), "--from", str(cur), "--to", str(to),
                                        "--max-bytes", str(max_bytes)], stdout=subprocess.PIPE, stderr=ef, env=base_env(),
                                       timeout=3600)
            except subprocess.TimeoutExpired:
                inconcl += 1                # the wall-clock watchdog is not a verdict (loaded machine): the chunk is counted inconclusive
                cur = to
                continue
            last, got_agg, marker = None, False, ""
            for l in p.stdout.decode("utf-8", "replace").split("\n"):
                if l.startswith("BEGIN "):
                    last = int(l[6:])
                elif l.startswith("BAD "):
                    bad.append(json.loads(l[4:]))
                elif l.startswith("AGG "):
                    aggs.append(json.loads(l[4:]))
                    got_agg = True
                elif l.startswith("HANG ") or l.startswith("MEM "):
                    marker = l.strip()
            if got_agg:
                cur = to
                continue
            # the worker died on case `last`
            tail = open(errp, "rb").read()[:30000].decode("utf-8", "replace")
            if last is None:
                inconcl += 1
                cur = to
                continue
            kind, frame = vlib.classify_death(tail)
            if marker:
                kind = marker.split()[0]
                if "frame=" in marker:
                    frame = marker.split("frame=", 1)[1]
            aggs.append({"cases": last - cur})  # cases completed before the death
            deaths.append({"i": last, "kind": kind, "frame": frame, "marker": marker, "stderr": tail[:6000], "rc": p.returncode, "corpus": cdir})
            cur = last + 1
        return bad, deaths, aggs, inconcl

    res = vlib.pmap(work, jobs, workers=nworkers)
    agg = {"cases": 0, "valid_utf8": 0, "accepted": 0, "rejected": 0, "err_value": 0, "diags": 0, "warnings": 0, "by_code": {},
           "distinct_inputs": 0, "max_cpu_ms": 0, "max_rss_kb": 0, "diags_in_imported_files": 0}
    bad, deaths, inconcl = [], [], 0
    for b, d, aggs, ic in res:
        bad += b
        deaths += d
        inconcl += ic
        for a in aggs:
            for k in ("cases", "valid_utf8", "accepted", "rejected", "err_value", "diags", "warnings", "distinct_inputs", "diags_in_imported_files"):
                agg[k] += a.get(k, 0)
            for k in ("max_cpu_ms", "max_rss_kb"):
                agg[k] = max(agg[k], a.get(k, 0))
            for c, v in a.get("by_code", {}).items():
                agg["by_code"][c] = agg["by_code"].get(c, 0) + v
    agg["cases"] += len(deaths)
    agg["corpus_files"] = n
    return {"agg": agg, "bad": bad, "deaths": deaths, "inconclusive": inconcl, "corpus0": corp0}


def emit_case(corpus_dir, seed, i, out_path, max_bytes=8192):
    p = subprocess.run([PROBE, "mutate", "--corpus", corpus_dir, "--seed", str(seed), "--emit", str(i), "--out", out_path,
                        "--max-bytes", str(max_bytes)], stdout=subprocess.PIPE, stderr=subprocess.PIPE, env=base_env())
    for l in p.stdout.decode().split("\n"):
        if l.startswith("EMIT "):
            return json.loads(l[5:])
    return None


# ---------------------------------------------------------------- hostile import graphs

def generic_graphs():
    """valid programs whose generic functions instantiate each other with SEVERAL concrete types (polymorphic recursion: f<Zahl> needs
    f<Text> needs f<Zahl> ...), declared in the using module, in an imported module, or reached through a middle module. The set of
    instantiations is finite, so the front end must come back; a lost 'already instantiated' entry makes it recurse for ever."""
    out = []
    lits = ["1", '"t"', "2,5", "wahr"]
    for k in (1, 2, 3, 4):
        for layout in ("one", "two", "three", "two_selective"):
            for variant in ("self", "chain", "list"):
                pub = "" if layout == "one" else "öffentliche "
                if variant == "list":
                    calls = "".join("\t\tzeige_v (eine Liste, die aus %s besteht) (n minus 1).\n" % l for l in lits[:k])
                    ptype = "T Liste"
                    first = "(eine Liste, die aus 'c' besteht)"
                else:
                    calls = "".join("\t\tzeige_v %s (n minus 1).\n" % l for l in lits[:k])
                    ptype = "T"
                    first = "'c'"
                lib = ("Die %sgenerische Funktion zeige_v_f mit den Parametern x und n vom Typ %s und Zahl, gibt nichts zurück, macht:\n"
                       "\tWenn n größer als 0 ist, dann:\n%sUnd kann so benutzt werden:\n\t\"zeige_v <x> <n>\"\n" % (pub, ptype, calls))
                if variant == "chain":
                    lib += ("Die %sgenerische Funktion kette_f mit den Parametern x und n vom Typ T und Zahl, gibt nichts zurück, macht:\n"
                            "\tzeige_v x n.\n%sUnd kann so benutzt werden:\n\t\"kette <x> <n>\"\n" % (pub, "".join("\tzeige_v %s n.\n" % l for l in lits[:k])))
                use = ("kette %s 2.\n" if variant == "chain" else "zeige_v %s 2.\n") % first
                name = "generic_%s_%s_%d" % (layout, variant, k)
                if layout == "one":
                    files = {"main.ddp": lib + use}
                elif layout == "two":
                    files = {"main.ddp": 'Binde "lib" ein.\n' + use, "lib.ddp": lib}
                elif layout == "two_selective":
                    files = {"main.ddp": ('Binde %s aus "lib" ein.\n' % ("kette_f und zeige_v_f" if variant == "chain" else "zeige_v_f")) + use, "lib.ddp": lib}
                else:
                    mitte = ('Binde "lib" ein.\nDie öffentliche generische Funktion weiter_f mit den Parametern x und n vom Typ T und Zahl, gibt nichts zurück, macht:\n'
                             "\t%s\nUnd kann so benutzt werden:\n\t\"weiter <x> <n>\"\n" % (("kette x n." if variant == "chain" else "zeige_v x n.") if variant != "list" else "zeige_v (eine Liste, die aus x besteht) n."))
                    files = {"main.ddp": 'Binde "mitte" ein.\nweiter \'c\' 2.\n', "mitte.ddp": mitte, "lib.ddp": lib}
                out.append((name, files))
    return out


def gen_import_graphs(rnd, n):
    """yields (name, {relpath: content}, main_relpath)"""
    out = []
    decl = lambda nm, pub=True: "Die %sZahl %s ist 1.\n" % ("öffentliche " if pub else "", nm)
    fun = lambda nm, pub=True: ("Die %sFunktion %s gibt eine Zahl zurück, macht:\n\tGib 1 zurück.\nUnd kann so benutzt werden:\n\t\"%s\"\n" % (
        "öffentliche " if pub else "", nm, nm))
    fixed = [
        ("missing", {"main.ddp": 'Binde "nicht_da" ein.\n'}),
        ("dir_instead_of_file", {"main.ddp": 'Binde "d" ein.\n', "d/x.ddp": decl("x")}),
        ("dir_named_ddp", {"main.ddp": 'Binde "d" ein.\n', "d.ddp/x.ddp": decl("x")}),
        ("self", {"main.ddp": 'Binde "main" ein.\n' + decl("a")}),
        ("self_dot", {"main.ddp": 'Binde "./main" ein.\n' + decl("a")}),
        ("self_via_dir", {"main.ddp": 'Binde alle Module aus "." ein.\n' + decl("a")}),
        ("self_via_dir_rec", {"main.ddp": 'Binde alle Module rekursiv aus "." ein.\n' + decl("a"), "s/t.ddp": 'Binde "../main" ein.\n'}),
        ("cycle2", {"main.ddp": 'Binde "a" ein.\n', "a.ddp": 'Binde "main" ein.\n' + decl("x")}),
        ("cycle3", {"main.ddp": 'Binde "a" ein.\n', "a.ddp": 'Binde "b" ein.\n', "b.ddp": 'Binde "main" ein.\n'}),
        ("cycle4", {"main.ddp": 'Binde "a" ein.\n', "a.ddp": 'Binde "b" ein.\n', "b.ddp": 'Binde "c" ein.\n', "c.ddp": 'Binde "a" ein.\n'}),
        ("cycle_inner", {"main.ddp": 'Binde "a" ein.\n', "a.ddp": 'Binde "b" ein.\n', "b.ddp": 'Binde "a" ein.\n'}),
        ("diamond", {"main.ddp": 'Binde "a" ein.\nBinde "b" ein.\n', "a.ddp": 'Binde "c" ein.\n' + decl("xa"), "b.ddp": 'Binde "c" ein.\n' + decl("xb"), "c.ddp": decl("xc")}),
        ("faulty_import", {"main.ddp": 'Binde "a" ein.\nDie Zahl z ist x.\n', "a.ddp": "Die öffentliche Zahl x ist .\n"}),
        ("faulty_import_scan", {"main.ddp": 'Binde "a" ein.\n', "a.ddp": b"Die Zahl x ist \xff 1.\n"}),
        ("faulty_import_panic", {"main.ddp": 'Binde "a" ein.\n', "a.ddp": 'Der Text t ist "\\q.\n'}),
        ("selective_missing", {"main.ddp": 'Binde foo aus "a" ein.\n', "a.ddp": decl("x")}),
        ("selective_private", {"main.ddp": 'Binde x aus "a" ein.\n', "a.ddp": decl("x", False)}),
        ("selective_many", {"main.ddp": 'Binde x, y und z aus "a" ein.\n', "a.ddp": decl("x") + decl("y", False)}),
        ("selective_from_dir", {"main.ddp": 'Binde x aus "d" ein.\n', "d/a.ddp": decl("x")}),
        ("all_empty_dir", {"main.ddp": 'Binde alle Module aus "d" ein.\n', "d/.keep": ""}),
        ("all_missing_dir", {"main.ddp": 'Binde alle Module aus "nix" ein.\n'}),
        ("all_nested", {"main.ddp": 'Binde alle Module rekursiv aus "d" ein.\n', "d/a.ddp": decl("x"), "d/e/b.ddp": decl("y"), "d/e/f/c.ddp": 'Binde "../../a" ein.\n' + decl("w")}),
        ("all_file", {"main.ddp": 'Binde alle Module aus "a" ein.\n', "a.ddp": decl("x")}),
        ("empty_path", {"main.ddp": 'Binde "" ein.\n'}),
        ("duden_prefix_dir", {"main.ddp": 'Binde "Duden" ein.\n'}),
        ("duden_missing", {"main.ddp": 'Binde "Duden/GibtEsNicht" ein.\n'}),
        ("duden_dir_all", {"main.ddp": 'Binde alle Module aus "Duden" ein.\n'}),
        ("path_up", {"main.ddp": 'Binde "../../../../../../../etc/passwd" ein.\n'}),
        ("nul_in_path", {"main.ddp": 'Binde "a\\0b" ein.\n'}),
        ("same_twice", {"main.ddp": 'Binde "a" ein.\nBinde "a" ein.\nBinde "./a" ein.\nBinde "d/../a" ein.\n', "a.ddp": decl("x"), "d/.keep": ""}),
        ("name_clash", {"main.ddp": 'Binde "a" ein.\nBinde "b" ein.\nDie Zahl z ist x.\n', "a.ddp": decl("x"), "b.ddp": decl("x")}),
        ("func_clash", {"main.ddp": 'Binde "a" ein.\nBinde "b" ein.\nDie Zahl z ist f.\n', "a.ddp": fun("f"), "b.ddp": fun("f")}),
        ("import_in_block", {"main.ddp": 'Wenn wahr, dann:\n\tBinde "a" ein.\n', "a.ddp": decl("x")}),
        ("import_after_use", {"main.ddp": 'Die Zahl z ist x.\nBinde "a" ein.\n', "a.ddp": decl("x")}),
        ("unreadable", {"main.ddp": 'Binde "a" ein.\n', "a.ddp": None}),
        ("import_main_ext", {"main.ddp": 'Binde "a.ddp" ein.\n', "a.ddp": decl("x")}),
    ]
    fixed += generic_graphs()
    for name, files in fixed:
        out.append((name, files, "main.ddp"))
    # random graphs: nodes 2..7, random edges (cycles allowed), random visibility, random selective imports
    while len(out) < n:
        k = rnd.randint(2, 7)
        names = ["m%d" % i for i in range(k)]
        files = {}
        for i, nm in enumerate(names):
            body = ""
            for j in range(k):
                if j != i and rnd.random() < 0.35:
                    form = rnd.randint(0, 3)
                    if form == 0:
                        body += 'Binde "%s" ein.\n' % names[j]
                    elif form == 1:
                        body += 'Binde v%d aus "%s" ein.\n' % (j, names[j])
                    elif form == 2:
                        body += 'Binde v%d und f%d aus "./%s" ein.\n' % (j, j, names[j])
                    else:
                        body += 'Binde alle Module aus "." ein.\n'
            body += decl("v%d" % i, rnd.random() < 0.7)
            body += fun("f%d" % i, rnd.random() < 0.7)
            if rnd.random() < 0.3:
                body += "Die Zahl w%d ist v%d plus f%d.\n" % (i, rnd.randrange(k), rnd.randrange(k))
            files[nm + ".ddp"] = body
        out.append(("rand%d" % len(out), files, "m0.ddp"))
    return out[:n]


def materialize(graph_dir, files):
    for rel, content in files.items():
        p = os.path.join(graph_dir, rel)
        os.makedirs(os.path.dirname(p), exist_ok=True)
        if content is None:
            with open(p, "w") as f:
                f.write("Die Zahl x ist 1.\n")
            os.chmod(p, 0)
        else:
            with open(p, "wb" if isinstance(content, bytes) else "w") as f:
                f.write(content)
