"""C12 part A worker: generates direct histories [start, start+count) of a seed, feeds them to the rt_driver
binaries (ASan+UBSan build and plain build of libddpruntime.a) and judges every step against the str model.
Runs as a child process of checks/c12.py (real parallelism):  python3 c12_direct.py job.json  -> JSON on stdout"""
import hashlib
import json
import os
import random
import re
import sys

if __name__ == "__main__":
    _V = os.path.dirname(os.path.dirname(os.path.abspath(__file__)))
    sys.path.insert(0, _V)
    sys.path.insert(0, os.path.join(_V, "lib"))

import vlib
from checks import c12_model as M

NSLOTS = 6


def history(seed, i):
    return M.gen_history(random.Random("C12/%d/direct/%d" % (seed, i)), "direct", NSLOTS)


def run_stream(driver, stream, asan, symbolize=False):
    # symbolize=0: every report would otherwise start an llvm-symbolizer process; reports kept as findings are symbolized afterwards
    extra = None
    if asan:
        extra = vlib.ASAN_ENV if symbolize else {k: v + ":symbolize=0" for k, v in vlib.ASAN_ENV.items()}
    return vlib.run([driver, "run"], env=vlib.base_env(extra), stdin=stream, wall_s=600, max_out=1 << 30)


def run_all(driver, asan, hs, symbolize=False):
    """executes all histories; histories predicted to end their process run in forked children of the driver, a history
    that unexpectedly kills the driver itself is recorded with the driver's status and stderr and the rest is resubmitted"""
    blocks, restarts, pending = {}, 0, hs
    while pending:
        stream = "".join(M.render_direct(str(i), c, fork=M.hazardous(c)) for i, c in pending)
        p = run_stream(driver, stream, asan, symbolize)
        if p.timed_out:
            return blocks, restarts, "driver timed out"
        got, unfinished = M.parse_blocks(p.out)
        blocks.update(got)
        if unfinished is None:
            if p.rc != 0:
                return blocks, restarts, "driver rc=%s: %s" % (p.rc, p.err[-500:])
            break
        hid, r, inv, d, other = unfinished
        blocks[hid] = (r, inv, d, p.rc if p.rc != 0 else -999, p.err, other)
        idx = [k for k, (i, _) in enumerate(pending) if str(i) == hid]
        if not idx:
            return blocks, restarts, "driver reported unknown history " + hid
        pending = pending[idx[0] + 1:]
        restarts += 1
    return blocks, restarts, None


def symbolized_report(driver, stream, text):
    """re-run one history with the symbolizer switched on, to make the kept report readable"""
    p = vlib.run([driver, "run"], env=vlib.base_env(vlib.ASAN_ENV), stdin=stream, wall_s=120)
    got, unfinished = M.parse_blocks(p.out)
    for b in got.values():
        if b[4]:
            return text.split("\nstatus=")[0] + "\nstatus=%d\n%s" % (b[3], b[4][:5000])
    if unfinished is not None and p.err:
        return text.split("\nstatus=")[0] + "\nstatus=%d\n%s" % (p.rc, p.err[:5000])
    return text


def run_chunk(job):
    if job.get("targeted"):
        hs = [("t%d" % i, c) for i, c in enumerate(M.targeted_histories())]
        count = len(hs)
    else:
        seed, start, count = job["seed"], job["start"], job["count"]
        hs = [(i, history(seed, i)) for i in range(start, start + count)]
    res = {"histories": count, "steps": 0, "tainted_steps": 0, "ops": {}, "hashes": [], "findings": [], "sigcount": {}, "inconclusive": 0,
           "expected_errors": 0, "eq_true": 0, "eq_false": 0, "repl_shrink": 0, "repl_grow": 0, "repl_same": 0, "samples": []}
    # workload statistics from the model
    for i, cmds in hs:
        res["hashes"].append(int(hashlib.sha1(repr(cmds).encode()).hexdigest()[:15], 16))
        st = M.State()
        for c in cmds:
            res["ops"][c[0]] = res["ops"].get(c[0], 0) + 1
            if c[0] == "repl" and 1 <= c[2] <= len(st.vals[c[1]]):
                a, b = M.width(st.vals[c[1]][c[2] - 1]), M.width(chr(c[3]))
                res["repl_shrink" if b < a else "repl_grow" if b > a else "repl_same"] += 1
            e = st.apply(c)
            if e is M.ERROR:
                res["expected_errors"] += 1
                break
            elif c[0] == "eq":
                res["eq_true" if e.scalar else "eq_false"] += 1
    for name, driver, asan in (("asan", job["driver_asan"], True), ("plain", job["driver_plain"], False)):
        if not driver:
            continue
        blocks, restarts, problem = run_all(driver, asan, hs)
        res["driver_restarts"] = res.get("driver_restarts", 0) + restarts
        if problem:
            res["findings"].append({"sig": {"part": "direct", "op": "(driver)", "history": M.FRESH, "symptom": "driver process failed"},
                                    "text": problem, "stream": "", "driver": name, "infra": True})
        for i, cmds in hs:
            b = blocks.get(str(i))
            if b is None:
                res["inconclusive"] += 1
                continue
            f, steps, tsteps = M.judge_direct(cmds, b)
            res["steps"] += steps
            res["tainted_steps"] += tsteps
            if not f and len(res["samples"]) < 2 and len(cmds) >= 6 and name == "asan":
                res["samples"].append({"history": M.render_direct(str(i), cmds).split("\n")[1:-2], "driver_report": b[0][-3:] + [b[2]]})
            for sig, text in f:
                key = json.dumps(sig, sort_keys=True)
                n = res["sigcount"].get(key, 0)
                res["sigcount"][key] = n + 1
                if n < 2:
                    stream = M.render_direct(str(i), cmds)
                    if asan and ("Sanitizer" in text or "runtime error" in text):
                        text = symbolized_report(driver, stream, text)
                    res["findings"].append({"sig": sig, "text": text, "stream": stream, "driver": name})
    return res


if __name__ == "__main__":
    job = json.load(open(sys.argv[1]))
    json.dump(run_chunk(job), sys.stdout)
