#include "c18_support.h"

void senke_Z(ddpint x) { printf("S Z "); c18_p_int(x); printf("\n"); fflush(stdout); }
void senke_K(ddpfloat x) { printf("S K "); c18_p_float(x); printf("\n"); fflush(stdout); }
void senke_B(ddpbyte x) { printf("S B "); c18_p_byte(x); printf("\n"); fflush(stdout); }
void senke_W(ddpbool x) { printf("S W "); c18_p_bool(x); printf("\n"); fflush(stdout); }
void senke_C(ddpchar x) { printf("S C "); c18_p_char(x); printf("\n"); fflush(stdout); }
void senke_T(ddpstring *x) { printf("S T "); c18_p_string(x); printf("\n"); fflush(stdout); }
void senke_ZL(ddpintlist *x) { printf("S ZL "); c18_p_intlist(x); printf("\n"); fflush(stdout); }
void senke_KL(ddpfloatlist *x) { printf("S KL "); c18_p_floatlist(x); printf("\n"); fflush(stdout); }
void senke_BL(ddpbytelist *x) { printf("S BL "); c18_p_bytelist(x); printf("\n"); fflush(stdout); }
void senke_WL(ddpboollist *x) { printf("S WL "); c18_p_boollist(x); printf("\n"); fflush(stdout); }
void senke_CL(ddpcharlist *x) { printf("S CL "); c18_p_charlist(x); printf("\n"); fflush(stdout); }
void senke_TL(ddpstringlist *x) { printf("S TL "); c18_p_stringlist(x); printf("\n"); fflush(stdout); }
void senke_VL(ddpanylist *x) { printf("S VL "); c18_p_anylist(x); printf("\n"); fflush(stdout); }
void senke_PL(PaarList *x) { printf("S PL "); c18_p_paarlist(x); printf("\n"); fflush(stdout); }
void senke_P(Paar *x) { printf("S P "); c18_p_paar(x); printf("\n"); fflush(stdout); }
void senke_S(Satz *x) { printf("S S "); c18_p_satz(x); printf("\n"); fflush(stdout); }
void senke_V(ddpany *x) { printf("S V "); c18_p_any(x); printf("\n"); fflush(stdout); }

static int n_fx3 = 0;
void fx3(ddpbool p0) {
	int n = n_fx3++;
	printf("C fx3 %d p0 ", n); c18_p_bool(p0); printf("\n");
	fflush(stdout);
	switch (n) {
	case 0: {
	} break;
	default: printf("C fx3 %d unexpected-call\n", n); break;
	}
	fflush(stdout);
}
